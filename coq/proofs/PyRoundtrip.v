(* proofs/PyRoundtrip.v — C02 (model level): decoding the canonical encoding of a legal,
   well-typed value gives the value back and consumes exactly the encoding, for every message
   type without a greedy tail (every array counter within the decoder's guard of 65536). *)
From Coq Require Import ZArith List Bool Lia ZifyBool.
From Prophy Require Import Bytes Schema Layout Wire Src PyStatics PyEncode PyDecode
  Arith SpecAlign Views SpecLen BytesFacts SrcFacts PyStaticsFacts PyEncodeFacts PyDecodeFacts.
Import ListNotations.
Local Open Scope Z_scope.
Ltac Zify.zify_post_hook ::= Z.to_euclidean_division_equations.

(* ---- the decoder's guard: no counted array longer than 65536 elements ---- *)
Section Guard.
  Variable gT : ty -> value -> bool.
  Definition guard_field (f : field) (v : value) : bool :=
    match fst f, v with
    | FPlain, _ => gT (snd f) v
    | FOpt, VSome x => gT (snd f) x
    | FFixed _, VList xs => forallb (gT (snd f)) xs
    | FBound _, VList xs => (len xs <=? 65536) && forallb (gT (snd f)) xs
    | FLimited _ _, VList xs => (len xs <=? 65536) && forallb (gT (snd f)) xs
    | FGreedy, VList xs => forallb (gT (snd f)) xs
    | _, _ => true
    end.
  Fixpoint guard_fields (fs : list field) (vs : list value) : bool :=
    match fs, vs with
    | f :: r, v :: vr => guard_field f v && guard_fields r vr
    | _, _ => true
    end.
  Fixpoint guard_arm (arms : list (Z * ty)) (i : nat) (x : value) : bool :=
    match arms, i with
    | a :: _, O => gT (snd a) x
    | _ :: r, S j => guard_arm r j x
    | _, _ => true
    end.
End Guard.

Fixpoint within_guard (t : ty) (v : value) {struct t} : bool :=
  match t, v with
  | TStruct fs, VStruct vs => guard_fields within_guard fs vs
  | TUnion arms, VUnion i x => guard_arm within_guard arms i x
  | _, _ => true
  end.

(* ---- scalars ---- *)
Lemma unpack_rt e k z data pre post :
  data = pre ++ enc_int e (sk_size k) z ++ post -> in_range k z = true ->
  py_unpack e k data (len pre) = Ok (z, sk_size k).
Proof.
  intros -> Hr. unfold py_unpack. pose proof (sk_size_pos k) as Hk.
  rewrite (py_num_short_spec _ _ _), !(py_size_spec k), (py_fmt_signed_spec k), (py_fmt_size_spec k).
  rewrite !len_app, len_enc_int by lia. pose proof (len_nonneg post).
  assert (E : (len pre + (sk_size k + len post) - len pre <? sk_size k) = false) by lia. rewrite E.
  rewrite (slice_mid' pre (enc_int e (sk_size k) z) post) by (try reflexivity; rewrite len_enc_int; lia).
  rewrite dec_enc_uint by lia. rewrite (scalar_roundtrip k z Hr). reflexivity.
Qed.

Lemma unpack_u32_rt e z data pre post :
  data = pre ++ enc_int e 4 z ++ post -> 0 <= z < 2 ^ 32 -> py_unpack e U32 data (len pre) = Ok (z, 4).
Proof. intros H Hz. apply (unpack_rt e U32 z data pre post H). unfold in_range, sk_min, sk_max. cbn. lia. Qed.

(* ---- bytes ---- *)
Lemma bytes_layout e xs o : forallb (wt TByte) xs = true ->
  exists bs, render e (lay_elems layout TByte xs o) = bs /\ xs = map VInt bs /\ len bs = len xs /\
             segslen (lay_elems layout TByte xs o) = len xs.
Proof.
  revert o. induction xs as [|x xr IH]; intros o H.
  - exists []. repeat split; reflexivity.
  - cbn [forallb] in H. apply andb_prop in H. destruct H as [Hx Hr]. destruct x; try discriminate. cbn [wt] in Hx.
    destruct (IH (o + 1) Hr) as [bs [E1 [E2 [E3 E4]]]]. exists (z :: bs).
    rewrite lay_elems_cons. cbn [layout]. change (segslen [SInt 1 z]) with 1. cbn [app].
    unfold is_byte in Hx. repeat split.
    + rewrite render_cons. cbn [render_seg]. rewrite enc_int_1 by lia. rewrite E1. reflexivity.
    + cbn [map]. rewrite <- E2. reflexivity.
    + rewrite !len_cons, E3. reflexivity.
    + rewrite segslen_cons. cbn [seglen]. rewrite E4, len_cons. lia.
Qed.

(* ---- the induction hypothesis ---- *)
Definition rtP (t : ty) : Prop :=
  legal t = true -> is_comp t = true -> stiffness t <> Unlimited ->
  forall e fuel v data pre post terminal,
    data = pre ++ render e (layout t v (len pre)) ++ post ->
    wt t v = true -> within_guard t v = true ->
    len pre mod align t = 0 -> (terminal = true -> post = []) ->
    py_dec e data fuel t (len pre) terminal = Ok (v, segslen (layout t v (len pre))).

Section RT.
  Variable e : endian.
  Variable fuel : nat.
  Variable data : bytes.
  Let decT := py_dec e data fuel.

  (* a member / element / arm type: composite (by induction) or scalar *)
  Lemma base_rt t x pre post : rtP t -> legal t = true -> not_byte t = true -> stiffness t <> Unlimited ->
    data = pre ++ render e (layout t x (len pre)) ++ post ->
    wt t x = true -> within_guard t x = true -> len pre mod align t = 0 ->
    py_dec_base e data decT t (len pre) = Ok (x, segslen (layout t x (len pre))).
  Proof.
    intros HP Hl Hnb Hu Hd Hw Hg Ha. destruct t; try discriminate.
    - destruct x; try discriminate. cbn [py_dec_base py_dec_scalar layout]. cbn [wt] in Hw.
      cbn [layout] in Hd. rewrite render_one in Hd. cbn [render_seg] in Hd.
      rewrite (unpack_rt e k z data pre post Hd Hw). cbn [bind fst snd segslen fold_right seglen]. f_equal. f_equal. lia.
    - destruct x; try discriminate. cbn [py_dec_base py_dec_scalar layout]. cbn [wt] in Hw.
      cbn [layout] in Hd. rewrite render_one in Hd. cbn [render_seg] in Hd.
      cbn [legal] in Hl.
      assert (Hr : 0 <= z < 2 ^ 32).
      { destruct vals as [|v0 vr]; [discriminate|]. rewrite forallb_forall in Hl.
        apply existsb_exists in Hw. destruct Hw as [y [Hy Ey]]. specialize (Hl y Hy).
        unfold u32_ok in Hl. apply Z.eqb_eq in Ey. subst y. lia. }
      rewrite py_enum_base_spec, (unpack_u32_rt e z data pre post Hd Hr). cbn [bind fst snd]. rewrite Hw.
      cbn [segslen fold_right seglen]. reflexivity.
    - cbn [py_dec_base]. unfold decT. apply (HP Hl eq_refl Hu e fuel x data pre post false); try assumption. discriminate.
    - cbn [py_dec_base]. unfold decT. apply (HP Hl eq_refl Hu e fuel x data pre post false); try assumption. discriminate.
  Qed.

  Lemma dec_n_rt t : rtP t -> legal t = true -> not_byte t = true -> stiffness t <> Unlimited ->
    forall xs pre post,
    data = pre ++ render e (lay_elems layout t xs (len pre)) ++ post ->
    forallb (wt t) xs = true -> forallb (within_guard t) xs = true -> len pre mod align t = 0 ->
    py_dec_n e data decT t (length xs) (len pre) = Ok (xs, segslen (lay_elems layout t xs (len pre))).
  Proof.
    intros HP Hl Hnb Hu xs. induction xs as [|x xr IH]; intros pre post Hd Hw Hg Ha.
    - reflexivity.
    - cbn [forallb] in Hw, Hg. apply andb_prop in Hw. destruct Hw as [Hwx Hwr]. apply andb_prop in Hg. destruct Hg as [Hgx Hgr].
      rewrite lay_elems_cons in *. rewrite render_app in Hd.
      destruct (layout_lengths_at t x (len pre) Hl Hwx Ha) as [L1 [L2 _]].
      set (B := render e (layout t x (len pre))) in *.
      assert (HlB : len B = segslen (layout t x (len pre))) by (apply len_render; assumption).
      change (py_dec_n e data decT t (length (x :: xr)) (len pre)) with
        (bind (py_dec_base e data decT t (len pre)) (fun r => bind (py_dec_n e data decT t (length xr) (len pre + snd r))
           (fun rs => Ok (fst r :: fst rs, snd r + snd rs)))).
      rewrite (base_rt t x pre (render e (lay_elems layout t xr (len pre + segslen (layout t x (len pre)))) ++ post) HP Hl Hnb Hu);
        try assumption.
      2:{ rewrite Hd. fold B. rewrite <- app_assoc. reflexivity. }
      cbn [bind fst snd].
      specialize (IH (pre ++ B) post). rewrite len_app, HlB in IH.
      rewrite IH; try assumption.
      + cbn [bind fst snd]. rewrite segslen_app. reflexivity.
      + rewrite Hd. rewrite <- !app_assoc. reflexivity.
      + apply add_mod_keep; [apply align_ok|assumption..].
  Qed.

  Lemma vints_map bs : vints bs = map VInt bs. Proof. reflexivity. Qed.

  Lemma field_rt all_fs decoded i f v pre post :
    rtP (snd f) -> fok f -> fstiff stiffness f <> Unlimited ->
    data = pre ++ render e (lay_body layout f v (len pre)) ++ post ->
    wt_field wt f v = true -> guard_field within_guard f v = true ->
    len pre mod falign align f = 0 ->
    (forall s, sizer_of (fst f) = Some s -> exists xs, v = VList xs /\ nth_error decoded s = Some (VInt (len xs))) ->
    (fst f = FPlain -> is_sizer all_fs i = true ->
       exists k n, f = (FPlain, TScalar k) /\ v = VInt n /\ in_range k n = true /\ 0 <= n <= 65536) ->
    py_dec_field e data decT fuel all_fs decoded i f (len pre) = Ok (v, segslen (lay_body layout f v (len pre))).
  Proof.
    intros HP Hok Hu Hd Hw Hg Ha Hhint Hsz. pose proof Hok as [Hl Hk].
    assert (Ha' : len pre mod align (snd f) = 0).
    { apply (mod_down _ (falign align f)); [apply align_ok|apply falign_ok|apply align_le_falign|exact Ha]. }
    pose proof (len_nonneg pre) as Hpre. pose proof (len_nonneg post) as Hpost.
    unfold py_dec_field. cbn zeta. unfold lay_body, wt_field, guard_field, fstiff in *.
    revert Hk Hu Hd Hw Hg Hhint Hsz.
    destruct (fst f) eqn:Ek; intros Hk Hu Hd Hw Hg Hhint Hsz.
    - (* plain *)
      destruct (is_sizer all_fs i) eqn:Es.
      + destruct (Hsz eq_refl eq_refl) as [k [n [Ef [-> [Hr Hn]]]]]. rewrite Ef in *. cbn [snd] in *.
        cbn [layout] in *. rewrite render_one in Hd. cbn [render_seg] in Hd.
        rewrite (unpack_rt e k n data pre post Hd Hr). cbn [bind fst snd].
        rewrite py_guard_exceeded_spec, py_len_negative_spec.
        assert (E1 : (65536 <? n) = false) by lia. assert (E2 : (n <? 0) = false) by lia. rewrite E1, E2.
        cbn [segslen fold_right seglen]. do 2 f_equal. lia.
      + apply (base_rt (snd f) v pre post); try assumption.
    - (* optional *)
      destruct Hk as [Hnb Hfx].
      assert (Efa : falign align f = Z.max 4 (align (snd f))) by (unfold falign; rewrite Ek; reflexivity).
      assert (Hus : stiffness (snd f) <> Unlimited).
      { unfold is_fixed in Hfx. apply stiff_eqb_eq in Hfx. rewrite Hfx. discriminate. }
      rewrite py_opt_alignment_spec, py_align_eq, <- Efa.
      destruct v; try discriminate.
      + rewrite !render_cons, render_nil in Hd. cbn [render_seg] in Hd. rewrite <- !app_assoc in Hd.
        rewrite (unpack_u32_rt e 0 data pre _ Hd) by lia. cbn [bind fst snd]. cbn [Z.eqb].
        rewrite (py_sizeof_eq _ Hl Hfx). cbn [segslen fold_right seglen]. do 2 f_equal. lia.
      + rewrite !render_cons in Hd. cbn [render_seg] in Hd. rewrite <- !app_assoc in Hd.
        rewrite (unpack_u32_rt e 1 data pre _ Hd) by lia. cbn [bind fst snd]. cbn [Z.eqb].
        pose proof (falign_ok f) as Hfa. assert (H4 : 4 <= falign align f) by lia.
        set (pre' := pre ++ enc_int e 4 1 ++ zeros (falign align f - 4)).
        assert (Hl' : len pre' = len pre + falign align f).
        { unfold pre'. rewrite !len_app, len_enc_int, len_zeros by lia. lia. }
        rewrite <- Hl' in *.
        rewrite (base_rt (snd f) v pre' post HP Hl Hnb Hus); try assumption.
        * cbn [bind fst snd]. rewrite !segslen_cons. cbn [seglen]. do 2 f_equal. rewrite Hl'. lia.
        * rewrite Hd. unfold pre'. rewrite <- !app_assoc. reflexivity.
        * rewrite Hl'. apply add_mod_keep; [apply align_ok|assumption|]. rewrite Efa, Z.max_comm. apply max_mod; [apply align_ok|apply okal_4].
    - (* fixed array *)
      destruct Hk as [Hn Hfx]. destruct v; try discriminate. apply andb_prop in Hw. destruct Hw as [Hlen Hall].
      assert (Hus : stiffness (snd f) <> Unlimited).
      { unfold is_fixed in Hfx. apply stiff_eqb_eq in Hfx. rewrite Hfx. discriminate. }
      destruct (snd f) eqn:Et.
      1,3,4,5: rewrite <- Et in *; assert (Hnb : not_byte (snd f) = true) by (rewrite Et; reflexivity);
        replace (Z.to_nat n) with (length vs) by (unfold len in Hlen; lia);
        rewrite (dec_n_rt (snd f) HP Hl Hnb Hus vs pre post Hd Hall Hg Ha'); reflexivity.
      destruct (bytes_layout e vs (len pre) Hall) as [bs [E1 [E2 [E3 E4]]]]. rewrite E1 in Hd.
      rewrite Hd, !len_app. assert (Ec : (len pre + (len bs + len post) - len pre <? n) = false) by lia. rewrite Ec.
      rewrite (slice_mid' pre bs post) by (try reflexivity; lia). rewrite vints_map, <- E2, E4. do 2 f_equal. lia.
    - (* dynamic array *)
      destruct v; try discriminate. apply andb_prop in Hg. destruct Hg as [Hg1 Hg2].
      destruct (Hhint s eq_refl) as [xs [Ev Hh]]. injection Ev as <-. rewrite Hh. cbn [bind].
      destruct (snd f) eqn:Et.
      1,3,4,5: rewrite <- Et in *; assert (Hnb : not_byte (snd f) = true) by (rewrite Et; reflexivity);
        destruct (elems_len _ (layout_lengths (snd f)) Hl vs (forallb_Forall _ _ Hw) (len pre) Ha') as [L1 [L2 _]];
        pose proof (segslen_nonneg _ L1) as Hsl;
        assert (Ec : (0 >? len data - len pre) = false)
          by (rewrite Hd, !len_app; pose proof (len_nonneg (render e (lay_elems layout (snd f) vs (len pre)))); lia);
        rewrite Ec; replace (Z.to_nat (len vs)) with (length vs) by (unfold len; lia);
        rewrite (dec_n_rt (snd f) HP Hl Hnb Hk vs pre post Hd Hw Hg2 Ha'); cbn [bind fst snd]; do 2 f_equal; lia.
      destruct (bytes_layout e vs (len pre) Hw) as [bs [E1 [E2 [E3 E4]]]]. rewrite E1 in Hd.
      rewrite Hd, !len_app.
      assert (Ec1 : (len pre + (len bs + len post) - len pre <? 0) = false) by (pose proof (len_nonneg bs); lia).
      assert (Ec2 : (len pre + (len bs + len post) - len pre <? len vs) = false) by lia. rewrite Ec1, Ec2.
      rewrite <- E3. rewrite (slice_mid' pre bs post) by reflexivity. rewrite vints_map, <- E2, E4, E3. reflexivity.
    - (* limited array *)
      destruct Hk as [Hn Hfx]. destruct v; try discriminate. apply andb_prop in Hw. destruct Hw as [Hlen Hall].
      apply andb_prop in Hg. destruct Hg as [Hg1 Hg2].
      assert (Hus : stiffness (snd f) <> Unlimited).
      { unfold is_fixed in Hfx. apply stiff_eqb_eq in Hfx. rewrite Hfx. discriminate. }
      destruct (Hhint s eq_refl) as [xs [Ev Hh]]. injection Ev as <-. rewrite Hh. cbn [bind].
      destruct (elems_len _ (layout_lengths (snd f)) Hl vs (forallb_Forall _ _ Hall) (len pre) Ha') as [L1 [L2 L3]].
      specialize (L3 Hfx). pose proof (size_nonneg _ Hl) as Hsz0.
      assert (Hle : len vs * size (snd f) <= n * size (snd f)) by (apply Z.mul_le_mono_nonneg_r; lia).
      rewrite render_app, render_one in Hd. cbn [render_seg] in Hd. rewrite <- app_assoc in Hd.
      set (B := render e (lay_elems layout (snd f) vs (len pre))) in *.
      assert (HlB : len B = len vs * size (snd f)) by (unfold B; rewrite len_render by assumption; exact L3).
      rewrite segslen_app, segslen_cons. cbn [seglen segslen fold_right].
      subst B.
      destruct (snd f) eqn:Et.
      1,3,4,5: rewrite <- Et in *; assert (Hnb : not_byte (snd f) = true) by (rewrite Et; reflexivity);
        assert (Zs : py_ftype_size py_sizeof f = n * size (snd f))
          by (unfold py_ftype_size; rewrite Ek, (py_sizeof_eq _ Hl Hfx); destruct (snd f); rewrite ?py_array_size_spec; cbn [size]; lia);
        rewrite Zs;
        assert (Ec : (n * size (snd f) >? len data - len pre) = false)
          by (rewrite Hd, !len_app, len_zeros by lia; lia);
        rewrite Ec;
        assert (Ec2 : (n <? len vs) = false) by lia; rewrite Ec2, andb_false_r;
        replace (Z.to_nat (len vs)) with (length vs) by (unfold len; lia);
        rewrite (dec_n_rt (snd f) HP Hl Hnb Hus vs pre (zeros (n * size (snd f) - segslen (lay_elems layout (snd f) vs (len pre))) ++ post));
          try assumption; try exact Hd;
        cbn [bind fst snd]; rewrite L3; do 2 f_equal; lia.
      destruct (bytes_layout e vs (len pre) Hall) as [bs [E1 [E2 [E3 E4]]]]. rewrite E1 in Hd.
      cbn [size] in *. rewrite Hd, !len_app, len_zeros by lia.
      assert (Ec1 : (len pre + (len bs + (n * 1 - segslen (lay_elems layout TByte vs (len pre)) + len post)) - len pre <? n) = false) by lia.
      rewrite Ec1. rewrite <- E3.
      rewrite (slice_mid' pre bs _ (len pre) (len bs)) by reflexivity.
      assert (Ec2 : (n <? len bs) = false) by lia. rewrite Ec2. rewrite vints_map, <- E2. do 2 f_equal. lia.
    - (* greedy: excluded *)
      exfalso. apply Hu. reflexivity.
  Qed.
End RT.

(* ---- facts about counters at the level of one struct ---- *)
Lemma counts_ok_nth all fs vs j f v s : counts_ok all fs vs = true ->
  nth_error fs j = Some f -> nth_error vs j = Some v -> sizer_of (fst f) = Some s ->
  exists xs, nth_error all s = Some (VInt (len xs)) /\ v = VList xs.
Proof.
  revert vs j. induction fs as [|g r IH]; intros vs j Hc Hf Hv Hs; [destruct j; discriminate|].
  destruct vs as [|w vr]; [destruct j; discriminate|].
  cbn [counts_ok] in Hc. apply andb_prop in Hc. destruct Hc as [Hc1 Hc2].
  destruct j as [|j]; cbn in Hf, Hv.
  - injection Hf as ->. injection Hv as ->. rewrite Hs in Hc1.
    destruct (nth_error all s) as [[n| | | | |]|]; try discriminate. destruct v; try discriminate.
    exists vs. split; [|reflexivity]. f_equal. f_equal. lia.
  - eapply IH; eassumption.
Qed.

Lemma guard_nth fs vs j f v : guard_fields within_guard fs vs = true ->
  nth_error fs j = Some f -> nth_error vs j = Some v -> guard_field within_guard f v = true.
Proof.
  revert vs j. induction fs as [|g r IH]; intros vs j Hg Hf Hv; [destruct j; discriminate|].
  destruct vs as [|w vr]; [destruct j; discriminate|].
  cbn [guard_fields] in Hg. apply andb_prop in Hg. destruct Hg as [H1 H2].
  destruct j as [|j]; cbn in Hf, Hv.
  - injection Hf as ->. injection Hv as ->. exact H1.
  - eapply IH; eassumption.
Qed.

Lemma legal_sizer_lt pre fs j f s : legal_fields legal pre fs = true ->
  nth_error fs j = Some f -> sizer_of (fst f) = Some s -> (s < length pre + j)%nat.
Proof.
  revert pre j. induction fs as [|g r IH]; intros pre j Hl Hf Hs; [destruct j; discriminate|].
  cbn [legal_fields] in Hl. apply andb_prop in Hl. destruct Hl as [Hlf Hlr].
  destruct j as [|j]; cbn in Hf.
  - injection Hf as ->. pose proof (legal_field_sizer_ref pre _ f s Hlf Hs). lia.
  - specialize (IH (pre ++ [g]) j Hlr Hf Hs). rewrite app_length in IH. cbn [length] in IH. lia.
Qed.

Lemma first_bound_len_spec i fs vs n : first_bound_len i fs vs = Some n ->
  exists j f xs, nth_error fs j = Some f /\ bound_to i f = true /\ nth_error vs j = Some (VList xs) /\ n = len xs.
Proof.
  revert vs. induction fs as [|g r IH]; intros vs H; [discriminate|].
  destruct vs as [|w vr]; [discriminate|]. cbn [first_bound_len] in H.
  destruct (bound_to i g) eqn:Eb.
  - destruct w; try discriminate. injection H as <-. exists 0%nat, g, vs. repeat split; auto.
  - destruct (IH vr H) as [j [f [xs [H1 [H2 [H3 H4]]]]]]. exists (S j), f, xs. repeat split; auto.
Qed.

Lemma bound_to_sizer i f : bound_to i f = true -> sizer_of (fst f) = Some i.
Proof. unfold bound_to. destruct (sizer_of (fst f)) as [s|]; [|discriminate]. intros H. apply Nat.eqb_eq in H. subst. reflexivity. Qed.

Lemma derive_counts_id fs vs : counts_ok vs fs vs = true ->
  forall i suffix, suffix = skipn i vs -> derive_counts fs vs i suffix = suffix.
Proof.
  intros Hc i suffix. revert i. induction suffix as [|v vr IH]; intros i Hs; [reflexivity|].
  cbn [derive_counts].
  assert (Hv : nth_error vs i = Some v).
  { rewrite <- (firstn_skipn i vs) at 1. rewrite <- Hs.
    assert (Hlen : length (firstn i vs) = i).
    { rewrite firstn_length. apply Nat.min_l. destruct (le_lt_dec i (length vs)); [assumption|].
      rewrite skipn_all2 in Hs by lia. discriminate. }
    rewrite nth_error_app2 by lia. rewrite Hlen, Nat.sub_diag. reflexivity. }
  rewrite (IH (S i)).
  2:{ clear -Hs. revert i Hs. induction vs as [|a l IHl]; intros [|i] Hs; cbn [skipn] in *; try discriminate.
      - injection Hs as -> ->. reflexivity.
      - apply IHl. exact Hs. }
  destruct (is_sizer fs i); [|reflexivity].
  destruct (first_bound_len i fs vs) as [n|] eqn:Ef; [|reflexivity].
  destruct (first_bound_len_spec i fs vs n Ef) as [j [f [xs [H1 [H2 [H3 H4]]]]]].
  destruct (counts_ok_nth vs fs vs j f (VList xs) i Hc H1 H3 (bound_to_sizer i f H2)) as [xs' [Hn Hx]].
  injection Hx as <-. rewrite Hv in Hn. injection Hn as ->. subst n. reflexivity.
Qed.

(* ---- the member list ---- *)
Lemma py_dec_fields_cons e data decT fuel sa afs f r p pr i decoded pos :
  py_dec_fields e data decT fuel sa afs (f :: r) (p :: pr) i decoded pos =
  (let pos1 := pos + py_dist pos (py_falign py_align f) in
   bind (py_dec_field e data decT fuel afs decoded i f pos1) (fun x =>
     let pos2 := pos1 + snd x in
     let pos3 := match p with Some a => pos2 + py_dist pos2 a | None => pos2 end in
     py_dec_fields e data decT fuel sa afs r pr (S i) (decoded ++ [fst x]) pos3)).
Proof. reflexivity. Qed.

Section RTF.
  Variable e : endian.
  Variable fuel : nat.
  Variable data : bytes.
  Let decT := py_dec e data fuel.

  Definition HH (all_vs : list value) (i : nat) (fs : list field) (vs : list value) : Prop :=
    forall j f v, nth_error fs j = Some f -> nth_error vs j = Some v ->
      forall s, sizer_of (fst f) = Some s ->
        exists xs, v = VList xs /\ nth_error all_vs s = Some (VInt (len xs)) /\ (s < i + j)%nat.

  Definition HS (all_fs : list field) (i : nat) (fs : list field) (vs : list value) : Prop :=
    forall j f v, nth_error fs j = Some f -> nth_error vs j = Some v -> fst f = FPlain ->
      is_sizer all_fs (i + j) = true ->
      exists k n, f = (FPlain, TScalar k) /\ v = VInt n /\ in_range k n = true /\ 0 <= n <= 65536.

  Lemma fields_rt sa all_fs all_vs : okal sa ->
    forall fs vs, Forall2 (fun f v => wt_field wt f v = true) fs vs ->
    Forall (fun f => rtP (snd f)) fs -> Forall fok fs ->
    Forall (fun f => fstiff stiffness f <> Unlimited) fs -> salign align fs <= sa ->
    guard_fields within_guard fs vs = true ->
    forall decoded after pre post,
      all_vs = decoded ++ vs -> HH all_vs (length decoded) fs vs -> HS all_fs (length decoded) fs vs ->
      data = pre ++ render e (lay_fields layout sa fs vs after (len pre)) ++ post ->
      (after = true -> len pre mod blockal fs = 0) ->
      py_dec_fields e data decT fuel sa all_fs fs (fst (py_scan fs)) (length decoded) decoded (len pre)
      = Ok (decoded ++ vs, len pre + segslen (lay_fields layout sa fs vs after (len pre))).
  Proof.
    intros Hsa fs vs H2. induction H2 as [|f v r vr Hfv Hr IHr];
      intros HIH Hok Hnu Hle Hg decoded after pre post Hall Hhh Hhs Hd Haft;
      change (fkind * ty)%type with field in *.
    - cbn [py_scan fst py_dec_fields lay_fields segslen fold_right seglen]. rewrite py_dist_pad by assumption.
      rewrite app_nil_r. do 2 f_equal. lia.
    - pose proof (Forall_inv HIH) as HPf. pose proof (Forall_inv_tail HIH) as HIHr.
      pose proof (Forall_inv Hok) as Hokf. pose proof (Forall_inv_tail Hok) as Hokr.
      pose proof (Forall_inv Hnu) as Hnuf. pose proof (Forall_inv_tail Hnu) as Hnur.
      cbn beta in HPf, Hnuf.
      rewrite salign_cons in Hle. cbn [guard_fields] in Hg. apply andb_prop in Hg. destruct Hg as [Hgf Hgr].
      pose proof (falign_ok f) as Hfa. pose proof (blockal_ok (f :: r)) as Hba. pose proof (blockal_ok r) as Hbr.
      pose proof (falign_le_blockal f r) as Hfb. pose proof (blockal_le r) as Hblr.
      pose proof (len_nonneg pre) as Hlp.
      rewrite py_scan_cons.
      set (p := pad (falign align f) (len pre)).
      assert (Hp : pad (if after then blockal (f :: r) else falign align f) (len pre) = p).
      { destruct after; [|reflexivity]. specialize (Haft eq_refl).
        rewrite (pad_zero _ _ Hba Haft). unfold p. symmetry. apply pad_zero; [assumption|].
        apply (mod_down _ (blockal (f :: r))); assumption. }
      pose proof (pad_nonneg _ (len pre) Hfa) as Hpr. fold p in Hpr.
      cbn [lay_fields] in Hd. rewrite Hp, render_pad_cons, render_app in Hd.
      set (pre1 := pre ++ zeros p).
      assert (Hl1 : len pre1 = len pre + p) by (unfold pre1; rewrite len_app, len_zeros by lia; lia).
      assert (Hof : len pre1 mod falign align f = 0) by (rewrite Hl1; apply pad_aligned; assumption).
      destruct (body_len f v (len pre + p) (layout_lengths (snd f)) Hokf Hfv ltac:(rewrite <- Hl1; exact Hof)) as [B1 _].
      set (B := render e (lay_body layout f v (len pre + p))) in *.
      assert (HlB : len B = segslen (lay_body layout f v (len pre + p))) by (apply len_render; assumption).
      pose proof (len_nonneg B) as HlB0.
      set (rest := render e (lay_fields layout sa r vr (ends_block f) (len pre + p + segslen (lay_body layout f v (len pre + p))))) in *.
      assert (Hbody : py_dec_field e data decT fuel all_fs decoded (length decoded) f (len pre1)
                      = Ok (v, segslen (lay_body layout f v (len pre1)))).
      { apply (field_rt e fuel data all_fs decoded (length decoded) f v pre1 (rest ++ post)); try assumption.
        - rewrite Hl1. fold B. rewrite Hd. unfold pre1. rewrite <- !app_assoc. reflexivity.
        - intros s Hs. destruct (Hhh 0%nat f v eq_refl eq_refl s Hs) as [xs [Ev [Hn Hlt]]].
          exists xs. split; [exact Ev|]. rewrite Hall in Hn. rewrite nth_error_app1 in Hn by lia. exact Hn.
        - intros Ek Es. apply (Hhs 0%nat f v eq_refl eq_refl Ek). rewrite Nat.add_0_r. exact Es. }
      assert (Hhh' : HH all_vs (length (decoded ++ [v])) r vr).
      { intros j g w Hg Hw s Hs. destruct (Hhh (S j) g w Hg Hw s Hs) as [xs [Ev [Hn Hlt]]].
        exists xs. repeat split; auto. rewrite app_length. cbn [length]. lia. }
      assert (Hhs' : HS all_fs (length (decoded ++ [v])) r vr).
      { intros j g w Hg Hw Ek Es. apply (Hhs (S j) g w Hg Hw Ek).
        rewrite app_length in Es. cbn [length] in Es. replace (length decoded + S j)%nat with (length decoded + 1 + j)%nat by lia. exact Es. }
      assert (Hall' : all_vs = (decoded ++ [v]) ++ vr) by (rewrite Hall, <- app_assoc; reflexivity).
      cbn [lay_fields]. rewrite Hp, segslen_cons, segslen_app. cbn [seglen].
      destruct (ends_block f) eqn:Ed; cbn [fst]; rewrite py_dec_fields_cons; cbn zeta;
        rewrite py_falign_eq', py_dist_pad by assumption; fold p; rewrite <- Hl1, Hbody; cbn [bind fst snd];
        rewrite Hl1, <- HlB.
      + rewrite py_dist_pad by assumption.
        set (o2 := len pre + p + len B).
        pose proof (pad_nonneg (blockal r) o2 Hbr) as Hq.
        set (pre2 := pre1 ++ B ++ zeros (pad (blockal r) o2)).
        assert (Hl2 : len pre2 = o2 + pad (blockal r) o2).
        { unfold pre2. rewrite !len_app, Hl1, len_zeros by lia. unfold o2. lia. }
        replace (length decoded) with (length decoded) by reflexivity.
        assert (Erest : rest = zeros (pad (blockal r) o2) ++ render e (lay_fields layout sa r vr true (o2 + pad (blockal r) o2))).
        { unfold rest. rewrite <- HlB. fold o2. apply lay_fields_repad; [assumption|lia]. }
        specialize (IHr HIHr Hokr Hnur ltac:(lia) Hgr (decoded ++ [v]) true pre2 post Hall' Hhh' Hhs').
        rewrite Hl2 in IHr. rewrite app_length in IHr. cbn [length] in IHr.
        replace (length decoded + 1)%nat with (S (length decoded)) in IHr by lia.
        rewrite IHr.
        * rewrite <- app_assoc. cbn [app]. do 2 f_equal.
          assert (Es : segslen (lay_fields layout sa r vr true o2)
                       = pad (blockal r) o2 + segslen (lay_fields layout sa r vr true (o2 + pad (blockal r) o2))).
          { destruct (fields_len sa r Hsa ltac:(apply Forall_forall; intros; apply layout_lengths) Hokr vr Hr true o2) as [S1 _].
            destruct (fields_len sa r Hsa ltac:(apply Forall_forall; intros; apply layout_lengths) Hokr vr Hr true (o2 + pad (blockal r) o2)) as [S2 _].
            pose proof (f_equal len (lay_fields_repad e sa r vr o2 Hsa ltac:(lia))) as HL.
            rewrite len_app, len_zeros, !len_render in HL by (try assumption; lia). exact HL. }
          unfold o2 in *. rewrite HlB in *. lia.
        * rewrite Hd. fold B. fold rest. rewrite Erest. unfold pre2, pre1. rewrite <- !app_assoc. reflexivity.
        * intros _. apply pad_aligned; assumption.
      + set (pre2 := pre1 ++ B).
        assert (Hl2 : len pre2 = len pre + p + len B) by (unfold pre2; rewrite len_app, Hl1; lia).
        specialize (IHr HIHr Hokr Hnur ltac:(lia) Hgr (decoded ++ [v]) false pre2 post Hall' Hhh' Hhs').
        rewrite Hl2 in IHr. rewrite app_length in IHr. cbn [length] in IHr.
        replace (length decoded + 1)%nat with (S (length decoded)) in IHr by lia.
        rewrite IHr.
        * rewrite <- app_assoc. cbn [app]. do 2 f_equal. rewrite HlB. lia.
        * rewrite Hd. fold B. fold rest. unfold rest. rewrite HlB. unfold pre2, pre1. rewrite <- !app_assoc. reflexivity.
        * discriminate.
  Qed.
End RTF.

(* ---- unions ---- *)
Lemma nodupZ_notin x l : nodupZ (x :: l) = true -> existsb (Z.eqb x) l = false /\ nodupZ l = true.
Proof. cbn [nodupZ]. intros H. apply andb_prop in H. destruct H as [H1 H2]. apply negb_true_iff in H1. split; assumption. Qed.

Lemma dec_arm_rt e data decT arms : nodupZ (map fst arms) = true ->
  forall i k a pos r, nth_error arms i = Some a ->
  py_dec_base e data decT (snd a) pos = Ok r ->
  py_dec_arm e data decT arms k (fst a) pos = Ok (VUnion (k + i) (fst r)).
Proof.
  induction arms as [|b rest IH]; intros Hnd i k a pos r Hn Hb; [destruct i; discriminate|].
  cbn [map] in Hnd. apply nodupZ_notin in Hnd. destruct Hnd as [Hnotin Hnd].
  destruct i as [|i]; cbn in Hn.
  - injection Hn as ->. cbn [py_dec_arm]. rewrite Z.eqb_refl, Hb. cbn [bind]. rewrite Nat.add_0_r. reflexivity.
  - cbn [py_dec_arm].
    assert (E : (fst b =? fst a) = false).
    { destruct (fst b =? fst a) eqn:E; [|reflexivity]. exfalso.
      assert (Hin : existsb (Z.eqb (fst b)) (map fst rest) = true).
      { apply existsb_exists. exists (fst a). split; [|exact E]. apply in_map. eapply nth_error_In; exact Hn. }
      congruence. }
    rewrite E. rewrite (IH Hnd i (S k) a pos r Hn Hb). do 2 f_equal. lia.
Qed.

(* ---- C02, model level, for messages without a greedy tail ---- *)
Theorem py_dec_roundtrip t : rtP t.
Proof.
  induction t as [k| |vals|fs IH|arms IH] using ty_ind'; intros Hl Hc Hu e fuel v data pre post terminal Hd Hw Hg Ha Hterm;
    try discriminate.
  - (* struct *)
    pose proof Hl as Hl0. apply wt_struct in Hw. destruct Hw as [vs [-> [H2 Hcnt]]].
    apply legal_struct in Hl. destruct Hl as [Hne Hok].
    cbn [layout align within_guard] in *. cbn [py_dec]. rewrite py_salign_eq.
    assert (Hlf : legal_fields legal [] fs = true) by (cbn [legal] in Hl0; destruct fs; [congruence|exact Hl0]).
    assert (Hnu : Forall (fun f => fstiff stiffness f <> Unlimited) fs).
    { cbn [stiffness] in Hu. clear -Hu. induction fs as [|f r IHr]; [constructor|].
      cbn [stiff_fields fold_right] in Hu. constructor.
      - intros E. apply Hu. rewrite E. reflexivity.
      - apply IHr. intros E. apply Hu. unfold stiff_fields in E. rewrite E. destruct (fstiff stiffness f); reflexivity. }
    pose proof (fields_rt e fuel data (salign align fs) fs vs (salign_ok fs) fs vs H2 IH Hok Hnu (Z.le_refl _) Hg [] false pre post eq_refl) as HF.
    cbn [length app] in HF. rewrite HF; try assumption.
    + cbn [bind fst snd app length].
      destruct (fields_len (salign align fs) fs (salign_ok fs) ltac:(apply Forall_forall; intros; apply layout_lengths) Hok vs H2 false (len pre)) as [S1 _].
      assert (Ec : (terminal && (len pre + segslen (lay_fields layout (salign align fs) fs vs false (len pre)) <? len data)) = false).
      { destruct terminal; [|reflexivity]. rewrite (Hterm eq_refl) in Hd. rewrite Hd, app_nil_r, len_app, len_render by assumption. cbn [andb]. lia. }
      rewrite Ec. rewrite (derive_counts_id fs vs Hcnt 0%nat vs eq_refl). do 2 f_equal. lia.
    + (* hints *)
      intros j f v Hf Hv s Hs. cbn [length Nat.add].
      destruct (counts_ok_nth vs fs vs j f v s Hcnt Hf Hv Hs) as [xs [Hn Hx]].
      exists xs. repeat split; auto. pose proof (legal_sizer_lt [] fs j f s Hlf Hf Hs) as Hlt. cbn [length] in Hlt. lia.
    + (* counters *)
      intros j f v Hf Hv Ek Es. cbn [length Nat.add] in Es.
      destruct (sizer_field fs vs j f v Hlf H2 Hcnt Hf Hv Es) as [k [n [Ef [Ev [Hr _]]]]].
      exists k, n. repeat split; auto.
      * unfold in_range in Hr. subst f. cbn [fst snd] in *.
        destruct (legal_sizer [] fs Hlf j Es) as [ts [Hn Hi]]. cbn [app] in Hn. rewrite Hf in Hn. injection Hn as <-.
        cbn [int_scalar] in Hi. rewrite Hi in Hr. unfold sk_min in Hr. destruct (sk_signed k); [|lia].
        (* a signed counter: its value is the length of an array *)
        unfold is_sizer in Es. apply existsb_exists in Es. destruct Es as [g [Hin Hb]].
        apply In_nth_error in Hin. destruct Hin as [jj Hjj].
        assert (Hvj : exists w, nth_error vs jj = Some w).
        { clear -H2 Hjj. revert jj Hjj. induction H2 as [|a b r br Hab Hr IHr]; intros [|jj] H; cbn in H; try discriminate; cbn; eauto. }
        destruct Hvj as [w Hw].
        destruct (counts_ok_nth vs fs vs jj g w j Hcnt Hjj Hw (bound_to_sizer j g Hb)) as [xs [Hn Hx]].
        rewrite Hv, Ev in Hn. injection Hn as ->. pose proof (len_nonneg xs). lia.
      * unfold is_sizer in Es. apply existsb_exists in Es. destruct Es as [g [Hin Hb]].
        apply In_nth_error in Hin. destruct Hin as [jj Hjj].
        assert (Hvj : exists w, nth_error vs jj = Some w).
        { clear -H2 Hjj. revert jj Hjj. induction H2 as [|a b r br Hab Hr IHr]; intros [|jj] H; cbn in H; try discriminate; cbn; eauto. }
        destruct Hvj as [w Hw].
        destruct (counts_ok_nth vs fs vs jj g w j Hcnt Hjj Hw (bound_to_sizer j g Hb)) as [xs [Hn Hx]].
        rewrite Hv, Ev in Hn. injection Hn as ->.
        pose proof (guard_nth fs vs jj g w Hg Hjj Hw) as Hgg. subst w. unfold guard_field in Hgg.
        pose proof (bound_to_sizer j g Hb) as Hsz. destruct (fst g); cbn [sizer_of] in Hsz; try discriminate;
          apply andb_prop in Hgg; destruct Hgg as [Hgg _]; lia.
    + discriminate.
  - (* union *)
    pose proof Hl as Hl0. apply wt_union in Hw. destruct Hw as [i [x [-> Hw]]]. apply wt_arms_nth in Hw. destruct Hw as [a [Hn Hwa]].
    apply legal_union in Hl. destruct Hl as [_ [Hok Hnd]].
    pose proof (nth_error_In _ _ Hn) as Hin.
    rewrite Forall_forall in Hok, IH. destruct (Hok a Hin) as [Hdr [Hla [Hnba Hfa]]].
    pose proof (ualign_ok arms) as Hua. pose proof (ualign_ge4 arms) as H4.
    cbn [layout align] in *. rewrite (lay_arm_nth arms i x _ a Hn) in *.
    rewrite !render_cons, render_app, render_one in Hd. cbn [render_seg] in Hd. rewrite <- !app_assoc in Hd.
    cbn [py_dec]. rewrite (unpack_u32_rt e (fst a) data pre _ Hd Hdr). cbn [bind fst snd].
    rewrite py_align_eq. cbn [align].
    set (pre' := pre ++ enc_int e 4 (fst a) ++ zeros (ualign align arms - 4)).
    assert (Hl' : len pre' = len pre + ualign align arms).
    { unfold pre'. rewrite !len_app, len_enc_int, len_zeros by lia. lia. }
    assert (Hoa : len pre' mod align (snd a) = 0).
    { rewrite Hl'. apply (mod_down _ (ualign align arms)); [apply align_ok|assumption|apply arm_le_ualign; assumption|].
      apply add_mod_keep; [assumption|assumption|apply self_mod; assumption]. }
    assert (Hus : stiffness (snd a) <> Unlimited).
    { unfold is_fixed in Hfa. apply stiff_eqb_eq in Hfa. rewrite Hfa. discriminate. }
    assert (Hga : within_guard (snd a) x = true).
    { clear -Hg Hn. revert i Hn Hg. induction arms as [|b r IHr]; intros [|i] Hn Hg; cbn in Hn; try discriminate.
      - injection Hn as ->. exact Hg.
      - cbn [guard_arm] in Hg. eapply IHr; eassumption. }
    destruct (layout_lengths_at (snd a) x (len pre') Hla Hwa Hoa) as [A1 [_ A3]]. specialize (A3 Hfa).
    set (tailz := zeros (size (TUnion arms) - ualign align arms - segslen (layout (snd a) x (len pre + ualign align arms)))) in *.
    rewrite <- Hl' in *.
    assert (HB : py_dec_base e data (py_dec e data fuel) (snd a) (len pre') = Ok (x, segslen (layout (snd a) x (len pre')))).
    { apply (base_rt e fuel data (snd a) x pre' (tailz ++ post) (IH a Hin) Hla Hnba Hus); try assumption.
      rewrite Hd. unfold pre'. rewrite <- !app_assoc. reflexivity. }
    rewrite (dec_arm_rt e data (py_dec e data fuel) arms Hnd i 0%nat a (len pre') _ Hn HB). cbn [bind fst Nat.add].
    rewrite (py_sizeof_eq (TUnion arms) Hl0 eq_refl).
    pose proof (arm_le_usize size arms a Hin) as Hle.
    pose proof (pad_nonneg (ualign align arms) (ualign align arms + usize size arms) Hua) as Hp.
    assert (Hsz : size (TUnion arms) = ualign align arms + usize size arms + pad (ualign align arms) (ualign align arms + usize size arms)) by reflexivity.
    assert (Htz : len tailz = size (TUnion arms) - ualign align arms - size (snd a)).
    { unfold tailz. rewrite <- Hl', A3. apply len_zeros. lia. }
    assert (Hlen : len data = len pre + size (TUnion arms) + len post).
    { rewrite Hd. rewrite !len_app, Htz, len_enc_int, len_zeros, len_render by (try assumption; lia). rewrite ?A3. lia. }
    pose proof (len_nonneg post) as Hpo.
    assert (E1 : (len data - len pre <? size (TUnion arms)) = false) by lia. rewrite E1.
    assert (E2 : (terminal && (len data - len pre >? size (TUnion arms))) = false).
    { destruct terminal; [|reflexivity]. rewrite (Hterm eq_refl) in Hlen. cbn [andb]. unfold len in Hlen at 3. cbn [length] in Hlen. lia. }
    rewrite E2. rewrite !segslen_cons, segslen_app, segslen_cons. cbn [seglen segslen fold_right].
    do 2 f_equal. lia.
Qed.

(* the statement for message.decode on a fresh message *)
Corollary py_decode_roundtrip e fs v :
  legal (TStruct fs) = true -> stiffness (TStruct fs) <> Unlimited ->
  wt (TStruct fs) v = true -> within_guard (TStruct fs) v = true ->
  py_decode e (TStruct fs) (wire e (TStruct fs) v) = Ok (v, len (wire e (TStruct fs) v)).
Proof.
  intros Hl Hu Hw Hg. unfold py_decode.
  pose proof (py_dec_roundtrip (TStruct fs) Hl eq_refl Hu e (S (length (wire e (TStruct fs) v))) v
                (wire e (TStruct fs) v) [] [] true) as H.
  change (len (@nil Z)) with 0 in H. cbn [app] in H.
  rewrite H; try assumption; try reflexivity.
  - destruct (layout_lengths (TStruct fs) v Hl Hw) as [L1 _]. unfold wire. rewrite len_render by assumption. reflexivity.
  - unfold wire. rewrite app_nil_r. reflexivity.
Qed.
