(* proofs/SpecAlign.v — alignment facts of the specification (no legality needed) and the
   shift invariance of layouts. *)
From Coq Require Import ZArith List Bool Lia ZifyBool.
From Prophy Require Import Bytes Schema Layout Wire Arith.
Import ListNotations.
Local Open Scope Z_scope.
Ltac Zify.zify_post_hook ::= Z.to_euclidean_division_equations.

Lemma sk_size_ok k : okal (sk_size k).
Proof. unfold okal; destruct k; cbn; lia. Qed.

Lemma falign_ok_gen alT f : okal (alT (snd f)) -> okal (falign alT f).
Proof. intros H. unfold falign. destruct (fst f); try assumption. apply okal_max; [apply okal_4|assumption]. Qed.

Lemma align_ok t : okal (align t).
Proof.
  induction t as [k| |vals|fs IH|arms IH] using ty_ind'; cbn [align].
  - apply sk_size_ok.
  - apply okal_1.
  - apply okal_4.
  - induction IH as [|f r Hf Hr IHr]; cbn [salign fold_right]; [apply okal_1|].
    apply okal_max; [apply falign_ok_gen; assumption|exact IHr].
  - induction IH as [|a r Ha Hr IHr]; cbn [ualign fold_right]; [apply okal_4|].
    apply okal_max; assumption.
Qed.

Lemma falign_ok f : okal (falign align f).
Proof. apply falign_ok_gen, align_ok. Qed.

Lemma salign_ok fs : okal (salign align fs).
Proof. apply (align_ok (TStruct fs)). Qed.

Lemma ualign_ok arms : okal (ualign align arms).
Proof. apply (align_ok (TUnion arms)). Qed.

Lemma blockal_ok fs : okal (blockal fs).
Proof.
  induction fs as [|f r IH]; cbn [blockal]; [apply okal_1|].
  destruct (ends_block f); [apply falign_ok|apply okal_max; [apply falign_ok|exact IH]].
Qed.

Lemma falign_le_salign fs f : In f fs -> falign align f <= salign align fs.
Proof.
  induction fs as [|g r IH]; cbn [In salign fold_right]; [tauto|].
  intros [->|H]; [lia|]. specialize (IH H). unfold salign in IH. lia.
Qed.

Lemma salign_cons f r : salign align (f :: r) = Z.max (falign align f) (salign align r).
Proof. reflexivity. Qed.

Lemma blockal_le fs : blockal fs <= salign align fs.
Proof.
  induction fs as [|f r IH]; cbn [blockal salign fold_right]; [lia|].
  unfold salign in IH. destruct (ends_block f); lia.
Qed.

Lemma falign_le_blockal f r : falign align f <= blockal (f :: r).
Proof. cbn [blockal]. destruct (ends_block f); lia. Qed.

Lemma align_le_falign f : align (snd f) <= falign align f.
Proof. unfold falign. destruct (fst f); lia. Qed.

Lemma ualign_ge4 arms : 4 <= ualign align arms.
Proof. induction arms as [|a r IH]; cbn [ualign fold_right]; [lia|]. unfold ualign in IH. lia. Qed.

Lemma arm_le_ualign arms a : In a arms -> align (snd a) <= ualign align arms.
Proof.
  induction arms as [|b r IH]; cbn [In ualign fold_right]; [tauto|].
  intros [->|H]; [lia|]. specialize (IH H). unfold ualign in IH. lia.
Qed.

Lemma okal_divides a b n : okal a -> okal b -> a <= b -> n mod b = 0 -> n mod a = 0.
Proof. apply mod_down. Qed.

Lemma pad_shift' a d o : okal a -> d mod a = 0 -> pad a (o + d) = pad a o.
Proof. unfold okal, pad; intros [->|[->|[->| ->]]]; lia. Qed.

Lemma lay_elems_nil L t o : lay_elems L t [] o = [].
Proof. reflexivity. Qed.
Lemma lay_elems_cons L t x xr o :
  lay_elems L t (x :: xr) o = L t x o ++ lay_elems L t xr (o + segslen (L t x o)).
Proof. reflexivity. Qed.

(* ---- shift invariance: moving a layout by a multiple of its alignment changes nothing ---- *)
Definition shiftP (t : ty) : Prop :=
  forall v o d, d mod align t = 0 -> layout t v (o + d) = layout t v o.

Lemma lay_elems_shift t : shiftP t -> forall xs o d, d mod align t = 0 ->
  lay_elems layout t xs (o + d) = lay_elems layout t xs o.
Proof.
  intros IH xs. induction xs as [|x xr IHx]; intros o d Hd; cbn [lay_elems]; [reflexivity|].
  rewrite (IH x o d Hd). f_equal.
  replace (o + d + segslen (layout t x o)) with (o + segslen (layout t x o) + d) by lia.
  apply IHx; assumption.
Qed.

Lemma lay_body_shift f : shiftP (snd f) -> forall v o d, d mod falign align f = 0 ->
  lay_body layout f v (o + d) = lay_body layout f v o.
Proof.
  intros IH v o d Hd.
  assert (Hd' : d mod align (snd f) = 0).
  { apply (mod_down _ (falign align f)); [apply align_ok|apply falign_ok|apply align_le_falign|exact Hd]. }
  unfold lay_body. destruct (fst f), v; try reflexivity;
    try (apply IH; assumption); try (apply lay_elems_shift; assumption).
  - do 2 f_equal. replace (o + d + falign align f) with (o + falign align f + d) by lia.
    apply IH; assumption.
  - rewrite (lay_elems_shift _ IH vs o d Hd'). reflexivity.
Qed.

Lemma lay_fields_shift sa fs : Forall (fun f => shiftP (snd f)) fs ->
  forall A, okal A -> okal sa -> sa <= A -> salign align fs <= A ->
  forall vs after o d, d mod A = 0 ->
  lay_fields layout sa fs vs after (o + d) = lay_fields layout sa fs vs after o.
Proof.
  intros HIH A HA Hsa HsaA. induction HIH as [|f r Hf Hr IHr]; intros Hle vs after o d Hd;
    change (fkind * ty)%type with field in *.
  - cbn [lay_fields]. rewrite pad_shift'; [reflexivity|assumption|].
    apply (mod_down _ A); assumption.
  - destruct vs as [|v vr]; cbn [lay_fields].
    + rewrite pad_shift'; [reflexivity|assumption|]. apply (mod_down _ A); assumption.
    + rewrite salign_cons in Hle.
      match goal with |- context [pad ?x (o + d)] => set (a := x) end.
      assert (Ha : okal a) by (unfold a; destruct after; [apply blockal_ok|apply falign_ok]).
      assert (HaA : a <= A).
      { unfold a; destruct after; [|lia]. pose proof (blockal_le (f :: r)). rewrite salign_cons in H. lia. }
      assert (Hpa : pad a (o + d) = pad a o).
      { apply pad_shift'; [assumption|]. apply (mod_down _ A); assumption. }
      rewrite Hpa.
      replace (o + d + pad a o) with (o + pad a o + d) by lia.
      assert (Hdf : d mod falign align f = 0).
      { apply (mod_down _ A); [apply falign_ok|assumption|lia|assumption]. }
      rewrite (lay_body_shift f Hf v (o + pad a o) d Hdf).
      do 2 f_equal.
      replace (o + pad a o + d + segslen (lay_body layout f v (o + pad a o)))
        with (o + pad a o + segslen (lay_body layout f v (o + pad a o)) + d) by lia.
      apply IHr; [lia|assumption].
Qed.

Lemma lay_arm_shift arms : Forall (fun a => shiftP (snd a)) arms ->
  forall A, okal A -> ualign align arms <= A ->
  forall i x o d, d mod A = 0 ->
  lay_arm layout arms i x (o + d) = lay_arm layout arms i x o.
Proof.
  intros HIH A HA. induction HIH as [|a r Ha Hr IHr]; intros Hle i x o d Hd.
  - destruct i; reflexivity.
  - cbn [ualign fold_right] in Hle. destruct i as [|j]; cbn [lay_arm].
    + rewrite Ha; [reflexivity|]. apply (mod_down _ A); [apply align_ok|assumption|lia|assumption].
    + apply IHr; [unfold ualign; lia|assumption].
Qed.

Theorem layout_shift t : shiftP t.
Proof.
  induction t as [k| |vals|fs IH|arms IH] using ty_ind'; intros v o d Hd;
    try (destruct v; reflexivity).
  - destruct v; try reflexivity. cbn [layout align] in *.
    apply (lay_fields_shift _ fs IH (salign align fs)); try apply salign_ok; try lia; assumption.
  - destruct v; try reflexivity. cbn [layout align] in *.
    replace (o + d + ualign align arms) with (o + ualign align arms + d) by lia.
    rewrite (lay_arm_shift arms IH (ualign align arms)); try apply ualign_ok; try lia; try assumption.
    reflexivity.
Qed.

Corollary layout_at_aligned t v o : o mod align t = 0 -> layout t v o = layout t v 0.
Proof. intros H. apply (layout_shift t v 0 o H). Qed.
