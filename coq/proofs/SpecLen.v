(* proofs/SpecLen.v — the specification really has the documented shape:
   every segment has non-negative length, every encoding's length is a multiple of its type's
   alignment, and every encoding of a fixed type has exactly [size t] bytes. *)
From Coq Require Import ZArith List Bool Lia ZifyBool.
From Prophy Require Import Bytes Schema Layout Wire Arith SpecAlign Views.
Import ListNotations.
Local Open Scope Z_scope.
Ltac Zify.zify_post_hook ::= Z.to_euclidean_division_equations.

Definition seg_ok (s : seg) : Prop := 0 <= seglen s.
Definition segs_ok (l : list seg) : Prop := Forall seg_ok l.

Lemma segslen_app a b : segslen (a ++ b) = segslen a + segslen b.
Proof. unfold segslen. induction a as [|s a IH]; cbn [app fold_right]; lia. Qed.
Lemma segslen_cons s l : segslen (s :: l) = seglen s + segslen l.
Proof. reflexivity. Qed.
Lemma segslen_nonneg l : segs_ok l -> 0 <= segslen l.
Proof. induction 1 as [|s l Hs Hl IH]; [cbn; lia|]. rewrite segslen_cons. unfold seg_ok in Hs. lia. Qed.
Lemma segs_ok_app a b : segs_ok a -> segs_ok b -> segs_ok (a ++ b).
Proof. intros; apply Forall_app; split; assumption. Qed.

Lemma render_app e a b : render e (a ++ b) = render e a ++ render e b.
Proof. unfold render. rewrite map_app, concat_app. reflexivity. Qed.
Lemma render_cons e s l : render e (s :: l) = render_seg e s ++ render e l.
Proof. reflexivity. Qed.
Lemma len_render e l : segs_ok l -> len (render e l) = segslen l.
Proof.
  induction 1 as [|s l Hs Hl IH]; [reflexivity|].
  rewrite render_cons, len_app, segslen_cons, IH. f_equal.
  unfold seg_ok in Hs. destruct s; cbn [render_seg seglen] in *; [apply len_enc_int|apply len_zeros]; assumption.
Qed.

Lemma segs_ok_nil : segs_ok []. Proof. constructor. Qed.
Lemma segs_ok_cons s l : 0 <= seglen s -> segs_ok l -> segs_ok (s :: l).
Proof. intros; constructor; assumption. Qed.
Ltac segs := repeat (first [apply segs_ok_nil | apply segs_ok_cons; [cbn [seglen]; try lia|]]).

Lemma sk_size_pos k : 0 < sk_size k. Proof. destruct k; cbn; lia. Qed.

(* ---- sizes are non-negative ---- *)
Lemma sz_fields_ge szT fs : Forall (fun f => 0 <= fsize szT f) fs ->
  forall after o, o <= sz_fields szT fs after o.
Proof.
  induction 1 as [|f r Hf Hr IH]; intros after o; cbn [sz_fields]; [lia|].
  match goal with |- context [pad ?a o] => pose proof (pad_nonneg a o) as Hp; set (aa := a) in * end.
  assert (okal aa) by (unfold aa; destruct after; [apply blockal_ok|apply falign_ok]).
  specialize (Hp H). specialize (IH (ends_block f) (o + pad aa o + fsize szT f)). lia.
Qed.

Lemma usize_nonneg szT arms : 0 <= usize szT arms.
Proof. induction arms as [|a r IH]; cbn [usize fold_right]; [lia|]. unfold usize in IH. lia. Qed.

Lemma arm_le_usize szT arms a : In a arms -> szT (snd a) <= usize szT arms.
Proof.
  induction arms as [|b r IH]; cbn [In usize fold_right]; [tauto|].
  intros [->|H]; [lia|]. specialize (IH H). unfold usize in IH. lia.
Qed.

Lemma fsize_nonneg f : fok f -> 0 <= size (snd f) -> 0 <= fsize size f.
Proof.
  intros [_ Hk] Hs. unfold fsize. pose proof (falign_ok f) as Ha. apply okal_pos in Ha.
  destruct (fst f); try lia; destruct Hk as [Hn _]; apply Z.mul_nonneg_nonneg; lia.
Qed.

Lemma size_nonneg t : legal t = true -> 0 <= size t.
Proof.
  induction t as [k| |vals|fs IH|arms IH] using ty_ind'; intros Hl; cbn [size]; try lia.
  - pose proof (sk_size_pos k); lia.
  - apply legal_struct in Hl. destruct Hl as [_ Hok].
    assert (Hall : Forall (fun f => 0 <= fsize size f) fs).
    { clear -IH Hok. induction Hok as [|f r Hf Hr IHr]; [constructor|].
      inversion IH as [|? ? H1 H2]; subst. constructor; [|apply IHr; assumption].
      apply fsize_nonneg; [assumption|]. apply H1. apply Hf. }
    pose proof (sz_fields_ge size fs Hall false 0).
    pose proof (pad_nonneg (salign align fs) (sz_fields size fs false 0) (salign_ok fs)). lia.
  - pose proof (usize_nonneg size arms). pose proof (ualign_ok arms) as Ha.
    pose proof (pad_nonneg (ualign align arms) (ualign align arms + usize size arms) Ha).
    apply okal_pos in Ha. lia.
Qed.

(* ---- the three length facts ---- *)
Definition Lfacts (t : ty) (v : value) (o : Z) : Prop :=
  segs_ok (layout t v o) /\
  segslen (layout t v o) mod align t = 0 /\
  (is_fixed t = true -> segslen (layout t v o) = size t).

Definition LP (t : ty) : Prop :=
  forall v, legal t = true -> wt t v = true -> Lfacts t v 0.

Lemma LP_aligned t : LP t -> forall v o, legal t = true -> wt t v = true -> o mod align t = 0 -> Lfacts t v o.
Proof. intros H v o Hl Hw Ho. unfold Lfacts. rewrite (layout_at_aligned t v o Ho). apply H; assumption. Qed.

Lemma elems_len t : LP t -> legal t = true -> forall xs, Forall (fun x => wt t x = true) xs ->
  forall o, o mod align t = 0 ->
  segs_ok (lay_elems layout t xs o) /\
  segslen (lay_elems layout t xs o) mod align t = 0 /\
  (is_fixed t = true -> segslen (lay_elems layout t xs o) = len xs * size t).
Proof.
  intros HP Hl xs Hxs. induction Hxs as [|x xr Hx Hr IH]; intros o Ho;
    [rewrite lay_elems_nil|rewrite lay_elems_cons].
  - split; [constructor|]. split; [reflexivity|]. intros _. reflexivity.
  - destruct (LP_aligned t HP x o Hl Hx Ho) as [H1 [H2 H3]].
    assert (Ho' : (o + segslen (layout t x o)) mod align t = 0) by (apply add_mod_keep; [apply align_ok|assumption|assumption]).
    destruct (IH _ Ho') as [I1 [I2 I3]].
    split; [apply segs_ok_app; assumption|]. rewrite segslen_app.
    split; [apply add_mod_keep; [apply align_ok|assumption|assumption]|].
    intros Hf. rewrite (I3 Hf), (H3 Hf), len_cons. lia.
Qed.

Lemma fixed_plain f : fst f = FPlain -> fstiff stiffness f = Fixed -> is_fixed (snd f) = true.
Proof. unfold fstiff, is_fixed. intros -> H. rewrite H. reflexivity. Qed.

Lemma body_len f v o : LP (snd f) -> fok f -> wt_field wt f v = true -> o mod falign align f = 0 ->
  segs_ok (lay_body layout f v o) /\
  (fstiff stiffness f = Fixed -> segslen (lay_body layout f v o) = fsize size f).
Proof.
  intros HP [Hl Hk] Hw Ho.
  assert (Ho' : o mod align (snd f) = 0).
  { apply (mod_down _ (falign align f)); [apply align_ok|apply falign_ok|apply align_le_falign|exact Ho]. }
  pose proof (size_nonneg _ Hl) as Hsz.
  unfold lay_body, wt_field, fsize, fstiff in *. destruct (fst f) eqn:Ek.
  - destruct (LP_aligned _ HP v o Hl Hw Ho') as [H1 [H2 H3]]. split; [exact H1|].
    intros Hf. apply H3. unfold is_fixed. rewrite Hf. reflexivity.
  - destruct Hk as [_ Hfx]. unfold falign in *. rewrite Ek in *.
    assert (Hfa : 4 <= Z.max 4 (align (snd f))) by lia.
    destruct v; try discriminate.
    + split; [segs|]. intros _. cbn [segslen fold_right seglen]. lia.
    + assert (Hov : (o + Z.max 4 (align (snd f))) mod align (snd f) = 0).
      { apply add_mod_keep; [apply align_ok|assumption|]. rewrite Z.max_comm. apply max_mod; [apply align_ok|apply okal_4]. }
      destruct (LP_aligned _ HP v _ Hl Hw Hov) as [H1 [H2 H3]].
      split; [segs; exact H1|].
      intros _. rewrite !segslen_cons. cbn [seglen]. rewrite (H3 Hfx). lia.
  - destruct Hk as [Hn Hfx]. destruct v; try discriminate.
    apply andb_prop in Hw. destruct Hw as [Hlen Hall]. apply forallb_Forall in Hall.
    destruct (elems_len _ HP Hl vs Hall o Ho') as [H1 [H2 H3]]. split; [exact H1|].
    intros _. rewrite (H3 Hfx). f_equal. lia.
  - destruct v; try discriminate. apply forallb_Forall in Hw.
    destruct (elems_len _ HP Hl vs Hw o Ho') as [H1 [H2 H3]]. split; [exact H1|]. intros; discriminate.
  - destruct Hk as [Hn Hfx]. destruct v; try discriminate.
    apply andb_prop in Hw. destruct Hw as [Hlen Hall]. apply forallb_Forall in Hall.
    destruct (elems_len _ HP Hl vs Hall o Ho') as [H1 [H2 H3]]. specialize (H3 Hfx).
    assert (Hle : len vs * size (snd f) <= n * size (snd f)) by (apply Z.mul_le_mono_nonneg_r; lia).
    split.
    + apply segs_ok_app; [exact H1|]. segs.
    + intros _. rewrite segslen_app, segslen_cons. cbn [seglen segslen fold_right]. lia.
  - destruct v; try discriminate. apply forallb_Forall in Hw.
    destruct (elems_len _ HP Hl vs Hw o Ho') as [H1 [H2 H3]]. split; [exact H1|]. intros; discriminate.
Qed.

Lemma ends_block_false f : ends_block f = false <-> fstiff stiffness f = Fixed.
Proof. unfold ends_block. rewrite negb_false_iff. apply stiff_eqb_eq. Qed.

Lemma fields_len sa fs : okal sa -> Forall (fun f => LP (snd f)) fs -> Forall fok fs ->
  forall vs, Forall2 (fun f v => wt_field wt f v = true) fs vs ->
  forall after o,
  segs_ok (lay_fields layout sa fs vs after o) /\
  (o + segslen (lay_fields layout sa fs vs after o)) mod sa = 0 /\
  (after = false -> Forall (fun f => fstiff stiffness f = Fixed) fs ->
     o + segslen (lay_fields layout sa fs vs after o)
     = let e := sz_fields size fs false o in e + pad sa e).
Proof.
  intros Hsa HIH Hok vs H2. revert HIH Hok.
  induction H2 as [|f v r vr Hfv Hr IHr]; intros HIH Hok after o;
    change (fkind * ty)%type with field in *.
  - cbn [lay_fields sz_fields]. pose proof (pad_nonneg sa o Hsa).
    split; [segs|].
    cbn [segslen fold_right seglen]. split; [rewrite Z.add_0_r; apply pad_aligned; assumption|].
    intros _ _. cbn zeta. lia.
  - inversion HIH as [|? ? HP HIHr]; subst. inversion Hok as [|? ? Hf Hokr]; subst.
    cbn [lay_fields].
    match goal with |- context [pad ?x o] => set (a := x) end.
    assert (Ha : okal a) by (unfold a; destruct after; [apply blockal_ok|apply falign_ok]).
    assert (Hfa : falign align f <= a) by (unfold a; destruct after; [apply falign_le_blockal|lia]).
    pose proof (pad_nonneg a o Ha) as Hp.
    assert (Hof : (o + pad a o) mod falign align f = 0).
    { apply (mod_down _ a); [apply falign_ok|assumption|assumption|apply pad_aligned; assumption]. }
    destruct (body_len f v (o + pad a o) HP Hf Hfv Hof) as [B1 B2].
    destruct (IHr HIHr Hokr (ends_block f) (o + pad a o + segslen (lay_body layout f v (o + pad a o)))) as [I1 [I2 I3]].
    split; [segs; apply segs_ok_app; assumption|].
    rewrite segslen_cons, segslen_app. cbn [seglen].
    split.
    + rewrite <- I2. f_equal. lia.
    + intros -> Hall. inversion Hall as [|? ? Hff Hallr]; subst.
      assert (He : ends_block f = false) by (apply ends_block_false; exact Hff).
      cbn [sz_fields]. rewrite He in *. specialize (I3 eq_refl Hallr). pose proof (B2 Hff) as Eb.
      cbn zeta in *. rewrite <- Eb.
      change (pad (falign align f) o) with (pad a o). lia.
Qed.

Lemma stiff_max_fixed a b : stiff_max a b = Fixed <-> a = Fixed /\ b = Fixed.
Proof. destruct a, b; cbn; split; intros H; try discriminate; try tauto; destruct H; discriminate. Qed.

Lemma struct_fixed_all fs : is_fixed (TStruct fs) = true -> Forall (fun f => fstiff stiffness f = Fixed) fs.
Proof.
  unfold is_fixed. rewrite stiff_eqb_eq. cbn [stiffness]. induction fs as [|f r IH]; [constructor|].
  cbn [stiff_fields fold_right]. intros H. apply stiff_max_fixed in H. destruct H as [H1 H2].
  constructor; [exact H1|apply IH; exact H2].
Qed.

Lemma lay_arm_nth arms i x o a : nth_error arms i = Some a ->
  lay_arm layout arms i x o = Some (fst a, layout (snd a) x o).
Proof.
  revert i. induction arms as [|b r IH]; intros [|j] H; cbn in H; try discriminate.
  - injection H as ->. reflexivity.
  - cbn [lay_arm]. apply IH; exact H.
Qed.

Theorem layout_lengths t : LP t.
Proof.
  induction t as [k| |vals|fs IH|arms IH] using ty_ind'; intros v Hl Hw; unfold Lfacts.
  - destruct v; try discriminate. cbn [layout align size]. pose proof (sk_size_pos k).
    split; [segs|]. cbn [segslen fold_right seglen].
    split; [rewrite Z.add_0_r; apply self_mod, sk_size_ok|intros; lia].
  - destruct v; try discriminate. cbn. split; [segs|]. split; [reflexivity|reflexivity].
  - destruct v; try discriminate. cbn [layout align size].
    split; [segs|]. cbn. split; reflexivity.
  - apply wt_struct in Hw. destruct Hw as [vs [-> [H2 _]]]. apply legal_struct in Hl. destruct Hl as [_ Hok].
    cbn [layout align size].
    destruct (fields_len (salign align fs) fs (salign_ok fs) IH Hok vs H2 false 0) as [F1 [F2 F3]].
    split; [exact F1|]. split; [exact F2|]. intros Hfx. apply struct_fixed_all in Hfx.
    specialize (F3 eq_refl Hfx). cbn zeta in F3. lia.
  - apply wt_union in Hw. destruct Hw as [i [x [-> Hw]]]. apply wt_arms_nth in Hw. destruct Hw as [a [Hn Hwa]].
    apply legal_union in Hl. destruct Hl as [_ [Hok _]].
    pose proof (nth_error_In _ _ Hn) as Hin.
    rewrite Forall_forall in Hok, IH. destruct (Hok a Hin) as [Hd [Hla [_ Hfa]]].
    cbn [layout align]. rewrite (lay_arm_nth arms i x _ a Hn).
    pose proof (ualign_ok arms) as Hua. pose proof (ualign_ge4 arms) as H4.
    assert (Hoa : (0 + ualign align arms) mod align (snd a) = 0).
    { cbn. apply (mod_down _ (ualign align arms)); [apply align_ok|assumption|apply arm_le_ualign; assumption|apply self_mod; assumption]. }
    destruct (LP_aligned _ (IH a Hin) x _ Hla Hwa Hoa) as [A1 [A2 A3]]. specialize (A3 Hfa).
    pose proof (arm_le_usize size arms a Hin) as Hle.
    pose proof (pad_nonneg (ualign align arms) (ualign align arms + usize size arms) Hua) as Hp.
    assert (Hsz : size (TUnion arms) = ualign align arms + usize size arms + pad (ualign align arms) (ualign align arms + usize size arms)) by reflexivity.
    split.
    + segs. apply segs_ok_app; [exact A1|]. segs.
    + rewrite !segslen_cons, segslen_app, segslen_cons. cbn [seglen segslen fold_right].
      assert (Htot : 4 + (ualign align arms - 4 + (segslen (layout (snd a) x (0 + ualign align arms)) +
                (size (TUnion arms) - ualign align arms - segslen (layout (snd a) x (0 + ualign align arms)) + 0))) = size (TUnion arms)) by lia.
      rewrite Htot. split; [|intros; reflexivity]. rewrite Hsz. apply pad_aligned; assumption.
Qed.

Corollary layout_lengths_at t v o : legal t = true -> wt t v = true -> o mod align t = 0 -> Lfacts t v o.
Proof. intros. apply LP_aligned; [apply layout_lengths|assumption..]. Qed.

(* C04 (spec side) and the statement quoted by C01: "every encoding of a fixed type has exactly that length" *)
Corollary wire_length_fixed e t v : legal t = true -> wt t v = true -> is_fixed t = true ->
  len (wire e t v) = size t.
Proof.
  intros Hl Hw Hf. destruct (layout_lengths t v Hl Hw) as [H1 [H2 H3]].
  unfold wire. rewrite len_render by assumption. apply H3; assumption.
Qed.

Corollary wire_length_aligned e t v : legal t = true -> wt t v = true -> len (wire e t v) mod align t = 0.
Proof.
  intros Hl Hw. destruct (layout_lengths t v Hl Hw) as [H1 [H2 H3]].
  unfold wire. rewrite len_render by assumption. exact H2.
Qed.
