(* proofs/CppSizeFacts.v — C05 (model level): the generated get_byte_size() expression, evaluated on an
   object, is the length of the object's canonical encoding. *)
From Coq Require Import ZArith List Bool Lia ZifyBool.
From Prophy Require Import Bytes Schema Layout Wire Src PcModel CppFull Arith SpecAlign Views SpecLen SrcFacts PcFacts PcRawFacts.
Import ListNotations.
Local Open Scope Z_scope.

Definition sizeP (t : ty) : Prop :=
  forall v, legal t = true -> wt t v = true -> cpp_size t v = segslen (layout t v 0).

(* the offset at which the members end, before the final padding of the struct *)
Fixpoint fields_end (fs : list field) (vs : list value) (after : bool) (o : Z) : Z :=
  match fs, vs with
  | f :: r, v :: vr =>
      let a := if after then blockal (f :: r) else falign align f in
      let p := pad a o in
      fields_end r vr (ends_block f) (o + p + segslen (lay_body layout f v (o + p)))
  | _, _ => o
  end.

Lemma lay_fields_end sa fs : forall vs after o,
  o + segslen (lay_fields layout sa fs vs after o) = (let e := fields_end fs vs after o in e + pad sa e).
Proof.
  induction fs as [|f r IH]; intros [|v vr] after o; cbn [lay_fields fields_end]; cbn zeta;
    try (cbn [segslen fold_right seglen]; lia).
  rewrite segslen_cons, segslen_app. cbn [seglen]. specialize (IH vr (ends_block f)
    (o + pad (if after then blockal (f :: r) else falign align f) o +
     segslen (lay_body layout f v (o + pad (if after then blockal (f :: r) else falign align f) o)))).
  cbn zeta in IH. lia.
Qed.

(* elements of an array of composites *)
Lemma elems_sum t : sizeP t -> legal t = true -> forall xs, Forall (fun x => wt t x = true) xs ->
  forall o, o mod align t = 0 ->
  fold_right (fun x acc => cpp_size t x + acc) 0 xs = segslen (lay_elems layout t xs o).
Proof.
  intros HP Hl xs Hxs. induction Hxs as [|x xr Hx Hr IH]; intros o Ho;
    [rewrite lay_elems_nil; reflexivity|rewrite lay_elems_cons].
  cbn [fold_right]. rewrite segslen_app.
  destruct (layout_lengths_at t x o Hl Hx Ho) as [H1 [H2 H3]].
  rewrite (IH (o + segslen (layout t x o))) by (apply add_mod_keep; [apply align_ok|assumption|assumption]).
  rewrite (HP x Hl Hx), (layout_at_aligned t x o Ho). reflexivity.
Qed.

Lemma forallb_Forall {A} (p : A -> bool) l : forallb p l = true -> Forall (fun x => p x = true) l.
Proof. intros H. apply Forall_forall. intros x Hx. rewrite forallb_forall in H. apply H. exact Hx. Qed.

Definition is_static (f : field) : bool := negb (ends_block f).

(* what one member contributes, and that a dynamic member ends on a multiple of its own alignment *)
Lemma member_bytes f v o p : sizeP (snd f) -> fok f ->
  pc_align (snd f) = align (snd f) -> pc_size (snd f) = size (snd f) ->
  wt_field wt f v = true -> o mod falign align f = 0 ->
  cpp_member_bytes cpp_size f (pc_member pc_size pc_align pc_kind f) p v =
    segslen (lay_body layout f v o) + (if is_static f then Z.max p 0 else 0)
  /\ (is_static f = false -> segslen (lay_body layout f v o) mod falign align f = 0).
Proof.
  intros HP Hfok Hal Hsz Hw Ho. pose proof Hfok as [Hl Hk].
  assert (Ho' : o mod align (snd f) = 0).
  { apply (mod_down _ (falign align f)); [apply align_ok|apply falign_ok|apply align_le_falign|exact Ho]. }
  pose proof (pc_kind_eq (snd f) Hl) as Hkd.
  pose proof (pc_member_size f Hfok Hal Hsz) as Hms.
  destruct (body_len f v o (layout_lengths (snd f)) Hfok Hw Ho) as [_ Hbody].
  unfold cpp_member_bytes, is_static, ends_block.
  unfold pc_member in *. unfold wt_field in Hw. unfold fstiff in *. unfold lay_body in *. unfold falign in *.
  destruct (fst f) eqn:Ek; cbn [pm_kind pm_isdyn pm_greedy pm_size orb] in *; rewrite Hkd.
  - (* plain *)
    destruct (stiffness (snd f)) eqn:Es; cbn [stiff_code stiff_eqb negb]; unfold K_FIXED.
    + cbn [Z.eqb]. rewrite Hms, (Hbody eq_refl). unfold fsize. rewrite Ek. split; [reflexivity|discriminate].
    + change (1 =? 0) with false. cbn iota. rewrite (HP v Hl Hw), (layout_at_aligned _ v o Ho'). split; [lia|].
      intros _. destruct (layout_lengths_at _ v o Hl Hw Ho') as [_ [H2 _]]. rewrite <- (layout_at_aligned _ v o Ho'). exact H2.
    + change (2 =? 0) with false. cbn iota. rewrite (HP v Hl Hw), (layout_at_aligned _ v o Ho'). split; [lia|].
      intros _. destruct (layout_lengths_at _ v o Hl Hw Ho') as [_ [H2 _]]. rewrite <- (layout_at_aligned _ v o Ho'). exact H2.
  - destruct Hk as [_ Hfx]. rewrite (fixed_code _ Hfx). unfold K_FIXED. cbn [Z.eqb stiff_eqb negb].
    rewrite Hms, (Hbody eq_refl). split; [reflexivity|discriminate].
  - destruct Hk as [_ Hfx]. rewrite (fixed_code _ Hfx). unfold K_FIXED. cbn [Z.eqb stiff_eqb negb].
    rewrite Hms, (Hbody eq_refl). split; [reflexivity|discriminate].
  - (* bound *)
    destruct v as [z| |y|xs|ws|c y]; try discriminate. cbn [stiff_eqb negb].
    apply forallb_Forall in Hw.
    destruct (elems_len (snd f) (layout_lengths (snd f)) Hl xs Hw o Ho') as [_ [E2 E3]].
    split; [|intros _; exact E2].
    destruct (stiffness (snd f)) eqn:Es; cbn [stiff_code]; unfold K_FIXED.
    + cbn [Z.eqb]. assert (Hfx : is_fixed (snd f) = true) by (unfold is_fixed; rewrite Es; reflexivity).
      rewrite (E3 Hfx). assert (E : match snd f with TByte => pc_byte_size | t => pc_size t end = size (snd f)).
      { clear -Hsz. destruct (snd f); try exact Hsz. }
      rewrite E. lia.
    + change (1 =? 0) with false. cbn iota. rewrite (elems_sum _ HP Hl xs Hw o Ho'). lia.
    + change (2 =? 0) with false. cbn iota. rewrite (elems_sum _ HP Hl xs Hw o Ho'). lia.
  - destruct Hk as [_ Hfx]. rewrite (fixed_code _ Hfx). unfold K_FIXED. cbn [Z.eqb stiff_eqb negb].
    rewrite Hms, (Hbody eq_refl). split; [reflexivity|discriminate].
  - (* greedy *)
    destruct v as [z| |y|xs|ws|c y]; try discriminate. cbn [stiff_eqb negb].
    apply forallb_Forall in Hw.
    destruct (elems_len (snd f) (layout_lengths (snd f)) Hl xs Hw o Ho') as [_ [E2 E3]].
    split; [|intros _; exact E2].
    destruct (stiffness (snd f)) eqn:Es; cbn [stiff_code]; unfold K_FIXED.
    + cbn [Z.eqb]. assert (Hfx : is_fixed (snd f) = true) by (unfold is_fixed; rewrite Es; reflexivity).
      rewrite (E3 Hfx). assert (E : match snd f with TByte => pc_byte_size | t => pc_size t end = size (snd f)).
      { clear -Hsz. destruct (snd f); try exact Hsz. }
      rewrite E. lia.
    + change (1 =? 0) with false. cbn iota. rewrite (elems_sum _ HP Hl xs Hw o Ho'). lia.
    + change (2 =? 0) with false. cbn iota. rewrite (elems_sum _ HP Hl xs Hw o Ho'). lia.
Qed.

Lemma size_mod_align t : size t mod align t = 0.
Proof.
  destruct t as [k| |vals|fs|arms]; cbn [size align].
  - apply self_mod, sk_size_ok.
  - reflexivity.
  - reflexivity.
  - cbn zeta. apply pad_aligned, salign_ok.
  - cbn zeta. apply pad_aligned, ualign_ok.
Qed.

(* a member that is not an optional ends on a multiple of its own alignment *)
Lemma body_mod f v o : fok f -> wt_field wt f v = true -> o mod falign align f = 0 ->
  fst f <> FOpt -> segslen (lay_body layout f v o) mod falign align f = 0.
Proof.
  intros Hfok Hw Ho Hno. pose proof Hfok as [Hl Hk].
  assert (Efa : falign align f = align (snd f)) by (unfold falign; destruct (fst f); try reflexivity; congruence).
  rewrite Efa in *.
  unfold lay_body, wt_field in *. destruct (fst f) eqn:Ek; try congruence.
  - destruct (layout_lengths_at _ v o Hl Hw Ho) as [_ [H2 _]]. exact H2.
  - destruct v as [z| |y|xs|ws|c y]; try discriminate. apply andb_prop in Hw. destruct Hw as [_ Hw]. apply forallb_Forall in Hw.
    destruct (elems_len (snd f) (layout_lengths (snd f)) Hl xs Hw o Ho) as [_ [E2 _]]. exact E2.
  - destruct v as [z| |y|xs|ws|c y]; try discriminate. apply forallb_Forall in Hw.
    destruct (elems_len (snd f) (layout_lengths (snd f)) Hl xs Hw o Ho) as [_ [E2 _]]. exact E2.
  - destruct v as [z| |y|xs|ws|c y]; try discriminate. rewrite segslen_app. cbn [segslen fold_right seglen].
    replace (segslen (lay_elems layout (snd f) xs o) + (n * size (snd f) - segslen (lay_elems layout (snd f) xs o) + 0)) with (n * size (snd f)) by lia.
    apply mul_mod_keep; [apply align_ok|apply size_mod_align].
  - destruct v as [z| |y|xs|ws|c y]; try discriminate. apply forallb_Forall in Hw.
    destruct (elems_len (snd f) (layout_lengths (snd f)) Hl xs Hw o Ho) as [_ [E2 _]]. exact E2.
Qed.

Lemma member_dynamic_ends sT f : fok f ->
  pm_member_dynamic (pc_member sT pc_align pc_kind f) = ends_block f.
Proof.
  intros [Hl Hk]. unfold pm_member_dynamic, pc_member, ends_block, fstiff.
  pose proof (pc_kind_eq (snd f) Hl) as Hkd.
  destruct (fst f); cbn [pm_kind pm_isdyn pm_greedy orb]; rewrite ?Hkd; unfold K_FIXED.
  - destruct (stiffness (snd f)); reflexivity.
  - destruct Hk as [_ Hfx]. rewrite (fixed_code _ Hfx). reflexivity.
  - destruct Hk as [_ Hfx]. rewrite (fixed_code _ Hfx). reflexivity.
  - reflexivity.
  - destruct Hk as [_ Hfx]. rewrite (fixed_code _ Hfx). reflexivity.
  - reflexivity.
Qed.

(* alignment of the first member of a (possibly later) part after evaluate_partial_padding_size *)
Lemma partial_head pre f r (after : bool) : legal_fields legal pre (f :: r) = true ->
  Forall (fun f => pc_align (snd f) = align (snd f)) (f :: r) ->
  let m := pc_member pc_size pc_align pc_kind f in
  let m' := if after then pm_set_align m (Z.max (pm_align m) (pc_part_max (m :: pcms r))) else m in
  pc_partial (pcms (f :: r)) after = m' :: pc_partial (pcms r) (pm_splits m) /\
  pm_align m' = (if after then blockal (f :: r) else falign align f) /\
  pm_size m' = pm_size m /\ pm_member_dynamic m' = pm_member_dynamic m /\ pm_optional m' = pm_optional m.
Proof.
  intros Hl Ha. cbn zeta.
  pose proof (legal_fields_fok _ _ Hl) as Hok. inversion Hok as [|? ? Hokf Hokr]; subst.
  inversion Ha as [|? ? Haf Har]; subst.
  split; [reflexivity|]. split.
  - destruct after; [|apply pc_member_facts; assumption].
    cbn [pm_set_align pm_align]. change (pc_member pc_size pc_align pc_kind f :: pcms r) with (pcms (f :: r)).
    rewrite (pc_part_max_blockal pre (f :: r) Hl Ha). rewrite (pc_member_facts _ f Hokf Haf).
    pose proof (falign_le_blockal f r). lia.
  - destruct after; repeat split; reflexivity.
Qed.

Definition fin_step (x e : Z) (st : bool) : Z :=
  let e' := e + (if st then Z.max x 0 else 0) in if x <? 0 then cpp_nearest (- x) e' else e'.

Lemma cpp_size_fields_cons sizeV f fr m mr p pr v vr acc :
  cpp_size_fields sizeV (f :: fr) (m :: mr) (p :: pr) (v :: vr) acc =
  cpp_size_fields sizeV fr mr pr vr
    (if p <? 0 then cpp_nearest (- p) (acc + cpp_member_bytes sizeV f m p v) else acc + cpp_member_bytes sizeV f m p v).
Proof. reflexivity. Qed.

Lemma size_walk : forall fs pre, legal_fields legal pre fs = true ->
  Forall (fun f => pc_align (snd f) = align (snd f) /\ pc_size (snd f) = size (snd f)) fs ->
  Forall (fun f => sizeP (snd f)) fs ->
  fs <> [] ->
  forall vs, Forall2 (fun f v => wt_field wt f v = true) fs vs ->
  forall prev (after : bool) bs o B x,
  (if after then True else okal B /\ blockal fs <= B /\ (bs - o) mod B = 0) ->
  cpp_size_fields cpp_size fs (pcms fs)
     (tl (fst (fst (pc_walk prev (pc_partial (pcms fs) after) bs))) ++ [x]) vs
     (o + pad (if after then blockal fs else falign align (hd (FPlain, TByte) fs)) o)
  = fin_step x (fields_end fs vs after o) (is_static (last fs (FPlain, TByte))).
Proof.
  induction fs as [|f r IH]; intros pre Hl Ha HP Hne vs H2 prev after bs o B x Hinv; [congruence|].
  pose proof (legal_fields_fok _ _ Hl) as Hok. inversion Hok as [|? ? Hokf Hokr]; subst.
  inversion Ha as [|? ? [Haf Hsf] Har]; subst. inversion HP as [|? ? HPf HPr]; subst.
  inversion H2 as [|? v ? vr Hwf H2r]; subst.
  assert (Ha' : Forall (fun f => pc_align (snd f) = align (snd f)) (f :: r)).
  { apply Forall_forall. intros y Hy. rewrite Forall_forall in Ha. apply (Ha y Hy). }
  destruct (partial_head pre f r after Hl Ha') as [Epar [Eal [Esz [Edynm Eoptm]]]].
  cbn zeta in Epar, Eal, Esz, Edynm, Eoptm. cbn [hd].
  set (m := pc_member pc_size pc_align pc_kind f) in *.
  set (m' := if after then pm_set_align m (Z.max (pm_align m) (pc_part_max (m :: pcms r))) else m) in *.
  set (a := if after then blockal (f :: r) else falign align f).
  assert (Hao : okal a) by (unfold a; destruct after; [apply blockal_ok|apply falign_ok]).
  pose proof (falign_ok f) as Hfo. pose proof (falign_le_blockal f r) as Hfb.
  assert (Hfa : falign align f <= a) by (unfold a; destruct after; lia).
  set (o1 := o + pad a o).
  assert (Ho1 : o1 mod falign align f = 0).
  { apply (mod_down _ a); try assumption. apply pad_aligned. exact Hao. }
  rewrite Epar, walk_cons. cbn [tl].
  change (pcms (f :: r)) with (m :: pcms r).
  cbn [fields_end]. fold a. fold o1.
  set (bl := segslen (lay_body layout f v o1)).
  assert (Esz0 : pm_size m = fsize size f) by (apply pc_member_size; assumption).
  cbn [legal_fields] in Hl. apply andb_prop in Hl. destruct Hl as [Hlf Hlr].
  destruct r as [|g r'].
  - (* the last member *)
    inversion H2r; subst. cbn [pcms map pc_partial pc_walk fst app].
    rewrite cpp_size_fields_cons. cbn [cpp_size_fields last fields_end].
    destruct (member_bytes f v o1 x HPf Hokf Haf Hsf Hwf Ho1) as [Eb _]. fold m in Eb. rewrite Eb. fold bl.
    unfold fin_step. cbn zeta. replace (o1 + (bl + (if is_static f then Z.max x 0 else 0))) with (o1 + bl + (if is_static f then Z.max x 0 else 0)) by lia.
    reflexivity.
  - (* a member followed by g *)
    inversion H2r as [|? w ? wr Hwg H2r']; subst.
    assert (Har' : Forall (fun f => pc_align (snd f) = align (snd f)) (g :: r')).
    { apply Forall_forall. intros y Hy. rewrite Forall_forall in Har. apply (Har y Hy). }
    assert (Hlr' : legal_fields legal (pre ++ [f]) (g :: r') = true) by exact Hlr.
    assert (Hu : fstiff stiffness f <> Unlimited).
    { eapply legal_unl_last with (pre := pre) (r := g :: r'); [|discriminate]. cbn [legal_fields]. rewrite Hlf. exact Hlr. }
    assert (Esp : pm_splits m = ends_block f) by (apply pc_member_splits; [assumption|left; assumption]).
    rewrite Esp.
    destruct (partial_head (pre ++ [f]) g r' (ends_block f) Hlr' Har') as [Eparg [Ealg _]]. cbn zeta in Eparg, Ealg.
    set (mg := pc_member pc_size pc_align pc_kind g) in *.
    set (mg' := if ends_block f then pm_set_align mg (Z.max (pm_align mg) (pc_part_max (mg :: pcms r'))) else mg) in *.
    set (ag := if ends_block f then blockal (g :: r') else falign align g) in *.
    assert (Hago : okal ag) by (unfold ag; destruct (ends_block f); [apply blockal_ok|apply falign_ok]).
    rewrite Eparg, walk_cons. cbn [app].
    change (m :: pcms (g :: r')) with (m :: mg :: pcms r').
    rewrite cpp_size_fields_cons.
    change (mg :: pcms r') with (pcms (g :: r')).
    set (bs1 := bs + (pm_size m' + pc_member_padding (pm_align m') bs)).
    set (pf := if pm_member_dynamic m' && (pm_align m' <? pm_align mg') then - pm_align mg' else pc_member_padding (pm_align mg') bs1).
    destruct (member_bytes f v o1 pf HPf Hokf Haf Hsf Hwf Ho1) as [Eb Emod]. fold m in Eb. rewrite Eb. fold bl.
    set (o' := o1 + bl).
    replace (last (f :: g :: r') (FPlain, TByte)) with (last (g :: r') (FPlain, TByte)) by reflexivity.
    (* the accumulator that reaches g is g's wire offset *)
    assert (Hacc : (if pf <? 0 then cpp_nearest (- pf) (o1 + (bl + (if is_static f then Z.max pf 0 else 0)))
                    else o1 + (bl + (if is_static f then Z.max pf 0 else 0))) = o' + pad ag o'
                   /\ (if ends_block f then True else
                         let B' := if after then blockal (f :: g :: r') else B in
                         okal B' /\ blockal (g :: r') <= B' /\ (bs1 - o') mod B' = 0)).
    { assert (Edf : pm_member_dynamic m = ends_block f) by (apply member_dynamic_ends; assumption).
      unfold pf. rewrite Edynm, Edf, Ealg. fold ag.
      unfold is_static. destruct (ends_block f) eqn:Eeb; cbn [negb andb].
      - (* f is dynamic *)
        split; [|exact I].
        assert (Ealf : pm_align m' = falign align f).
        { rewrite Eal. destruct after; [|reflexivity]. cbn [blockal]. rewrite Eeb. reflexivity. }
        rewrite Ealf.
        destruct (falign align f <? ag) eqn:Elt.
        + assert (E : (- ag <? 0) = true) by (apply okal_pos in Hago; lia). rewrite E.
          rewrite Z.opp_involutive, cpp_nearest_spec by exact Hago. replace (o1 + (bl + 0)) with o' by (unfold o'; lia). reflexivity.
        + rewrite pc_member_padding_spec by exact Hago.
          pose proof (pad_nonneg ag bs1 Hago) as Hnn.
          assert (E : (pad ag bs1 <? 0) = false) by lia. rewrite E.
          assert (Hom : o' mod falign align f = 0).
          { unfold o'. apply add_mod_keep; [exact Hfo|exact Ho1|]. apply Emod. unfold is_static. rewrite Eeb. reflexivity. }
          rewrite (pad_zero ag o' Hago) by (apply (mod_down _ (falign align f)); try assumption; lia).
          unfold o'. lia.
      - (* f is static *)
        rewrite pc_member_padding_spec by exact Hago.
        pose proof (pad_nonneg ag bs1 Hago) as Hnn.
        assert (E : (pad ag bs1 <? 0) = false) by lia. rewrite E.
        assert (Hbl : bl = fsize size f).
        { unfold bl. destruct (body_len f v o1 (layout_lengths (snd f)) Hokf Hwf Ho1) as [_ Hb]. apply Hb.
          apply ends_block_false. exact Eeb. }
        set (B' := if after then blockal (f :: g :: r') else B).
        assert (HB' : okal B' /\ blockal (f :: g :: r') <= B' /\ (bs1 - o') mod B' = 0).
        { unfold B', bs1, o', o1, a. rewrite Hbl, Esz, Esz0, Eal. destruct after.
          - rewrite pc_member_padding_spec by (apply blockal_ok).
            split; [apply blockal_ok|]. split; [lia|].
            replace (bs + (fsize size f + pad (blockal (f :: g :: r')) bs) - (o + pad (blockal (f :: g :: r')) o + fsize size f))
              with ((bs + pad (blockal (f :: g :: r')) bs) - (o + pad (blockal (f :: g :: r')) o)) by lia.
            pose proof (pad_aligned (blockal (f :: g :: r')) bs (blockal_ok _)) as P1.
            pose proof (pad_aligned (blockal (f :: g :: r')) o (blockal_ok _)) as P2.
            pose proof (blockal_ok (f :: g :: r')) as Hbk. unfold okal in Hbk.
            destruct Hbk as [Hb|[Hb|[Hb|Hb]]]; rewrite Hb in *; lia.
          - destruct Hinv as [HBo [HBle HBm]]. rewrite pc_member_padding_spec by exact Hfo.
            split; [exact HBo|]. split; [exact HBle|].
            assert (Hpad : pad (falign align f) bs = pad (falign align f) o).
            { replace bs with (o + (bs - o)) by lia. apply pad_shift'; [exact Hfo|].
              apply (okal_divides (falign align f) B); try assumption. lia. }
            rewrite Hpad.
            replace (bs + (fsize size f + pad (falign align f) o) - (o + pad (falign align f) o + fsize size f)) with (bs - o) by lia.
            exact HBm. }
        destruct HB' as [HBo [HBle HBm]].
        assert (Hgle : blockal (g :: r') <= B').
        { cbn [blockal] in HBle. rewrite Eeb in HBle. cbn [blockal]. lia. }
        split; [|cbn zeta; fold B'; repeat split; assumption].
        pose proof (falign_le_blockal g r') as Hgb.
        assert (Hpadg : pad ag bs1 = pad ag o').
        { replace bs1 with (o' + (bs1 - o')) by lia. apply pad_shift'; [exact Hago|].
          apply (okal_divides ag B'); try assumption. unfold ag. lia. }
        rewrite Z.max_l by lia. rewrite Hpadg. unfold o'. lia. }
    destruct Hacc as [Hacc Hnext]. rewrite Hacc.
    assert (Hinv' : if ends_block f then True else
              okal (if after then blockal (f :: g :: r') else B) /\ blockal (g :: r') <= (if after then blockal (f :: g :: r') else B) /\
              (bs1 - o') mod (if after then blockal (f :: g :: r') else B) = 0).
    { destruct (ends_block f); [exact I|exact Hnext]. }
    specialize (IH (pre ++ [f]) Hlr Har HPr ltac:(discriminate) (w :: wr) H2r m' (ends_block f) bs1 o'
                   (if after then blockal (f :: g :: r') else B) x Hinv').
    cbn [hd] in IH. fold ag in IH.
    rewrite Eparg, walk_cons in IH. cbn [tl] in IH.
    fold mg' in IH. rewrite <- IH.
    unfold bs1, pf. reflexivity.
Qed.

(* ---- the last member and the final padding ---- *)
Lemma blockal_single f : blockal [f] = falign align f.
Proof. cbn [blockal]. pose proof (falign_ok f) as H. apply okal_pos in H. destruct (ends_block f); lia. Qed.

Lemma walk_last : forall fs pre, legal_fields legal pre fs = true ->
  Forall (fun f => pc_align (snd f) = align (snd f)) fs -> fs <> [] ->
  forall prev (after : bool) bs,
  (match fs with [_] => True | _ => pm_align (snd (fst (pc_walk prev (pc_partial (pcms fs) after) bs))) = falign align (last fs (FPlain, TByte)) end) /\
  (match fs with [f] => pm_align (snd (fst (pc_walk prev (pc_partial (pcms fs) after) bs))) = (if after then blockal [f] else falign align f) | _ => True end) /\
  pm_optional (snd (fst (pc_walk prev (pc_partial (pcms fs) after) bs))) = (match fst (last fs (FPlain, TByte)) with FOpt => true | _ => false end).
Proof.
  induction fs as [|f r IH]; intros pre Hl Ha Hne prev after bs; [congruence|].
  destruct (partial_head pre f r after Hl Ha) as [Epar [Eal [_ [_ Eopt]]]]. cbn zeta in *.
  rewrite Epar. cbn [pc_walk].
  match goal with |- context [pc_walk ?p (pc_partial (pcms r) ?af) ?b] =>
    pose proof (fun H1 H2 H3 => IH (pre ++ [f]) H1 H2 H3 p af b) as IH' end.
  destruct (pc_walk _ (pc_partial (pcms r) _) _) as [[ps lm] fin] eqn:Ew. cbn [fst snd].
  destruct r as [|g r'].
  - cbn [pcms map pc_partial pc_walk] in Ew. injection Ew as _ <- _. cbn [last].
    split; [exact I|]. split; [exact Eal|]. clear. destruct after; cbn [pm_set_align pm_optional]; unfold pc_member; destruct (fst f); reflexivity.
  - cbn [legal_fields] in Hl. apply andb_prop in Hl. destruct Hl as [_ Hlr].
    inversion Ha as [|? ? _ Har]; subst.
    specialize (IH' Hlr Har ltac:(discriminate)).
    cbn [fst snd] in IH'.
    replace (last (f :: g :: r') (FPlain, TByte)) with (last (g :: r') (FPlain, TByte)) by reflexivity.
    destruct IH' as [I1 [I2 I3]]. split; [|split; [exact I|exact I3]].
    destruct r' as [|h r''].
    + cbn [last] in *. rewrite I2. rewrite blockal_single. destruct (pm_splits _); reflexivity.
    + exact I1.
Qed.

Lemma dynamic_exists : forall fs pre (after : bool), legal_fields legal pre fs = true ->
  Forall (fun f => pc_align (snd f) = align (snd f)) fs ->
  existsb pm_member_dynamic (pc_partial (pcms fs) after) = existsb ends_block fs.
Proof.
  induction fs as [|f r IH]; intros pre after Hl Ha; [reflexivity|].
  destruct (partial_head pre f r after Hl Ha) as [Epar [_ [_ [Edyn _]]]]. cbn zeta in *.
  rewrite Epar. cbn [existsb]. rewrite Edyn.
  pose proof (legal_fields_fok _ _ Hl) as Hok. inversion Hok as [|? ? Hokf Hokr]; subst.
  rewrite (member_dynamic_ends pc_size f Hokf).
  cbn [legal_fields] in Hl. apply andb_prop in Hl. destruct Hl as [_ Hlr]. inversion Ha as [|? ? _ Har]; subst.
  rewrite (IH (pre ++ [f]) _ Hlr Har). reflexivity.
Qed.

Lemma fields_end_static : forall fs, Forall fok fs -> Forall (fun f => ends_block f = false) fs ->
  forall vs, Forall2 (fun f v => wt_field wt f v = true) fs vs ->
  forall o, fields_end fs vs false o = sz_fields size fs false o.
Proof.
  induction fs as [|f r IH]; intros Hok Hst vs H2 o; inversion H2 as [|? v ? vr Hw H2r]; subst; [reflexivity|].
  inversion Hok as [|? ? Hokf Hokr]; subst. inversion Hst as [|? ? Hsf Hsr]; subst.
  cbn [fields_end sz_fields]. rewrite Hsf.
  pose proof (falign_ok f) as Hfo.
  assert (Ho1 : (o + pad (falign align f) o) mod falign align f = 0) by (apply pad_aligned; exact Hfo).
  destruct (body_len f v _ (layout_lengths (snd f)) Hokf Hw Ho1) as [_ Hb].
  rewrite (Hb (proj1 (ends_block_false f) Hsf)). apply IH; assumption.
Qed.

Lemma fields_end_mod : forall fs, Forall fok fs -> fs <> [] ->
  forall vs, Forall2 (fun f v => wt_field wt f v = true) fs vs ->
  forall after o, fst (last fs (FPlain, TByte)) <> FOpt ->
  fields_end fs vs after o mod falign align (last fs (FPlain, TByte)) = 0.
Proof.
  induction fs as [|f r IH]; intros Hok Hne vs H2 after o Hno; [congruence|].
  inversion H2 as [|? v ? vr Hw H2r]; subst. inversion Hok as [|? ? Hokf Hokr]; subst.
  cbn [fields_end].
  destruct r as [|g r'].
  - inversion H2r; subst. cbn [fields_end last] in *.
    set (a := if after then blockal [f] else falign align f).
    assert (Ea : a = falign align f) by (unfold a; destruct after; [apply blockal_single|reflexivity]).
    rewrite Ea. pose proof (falign_ok f) as Hfo.
    assert (Ho1 : (o + pad (falign align f) o) mod falign align f = 0) by (apply pad_aligned; exact Hfo).
    apply add_mod_keep; [exact Hfo|exact Ho1|]. apply body_mod; assumption.
  - replace (last (f :: g :: r') (FPlain, TByte)) with (last (g :: r') (FPlain, TByte)) in * by reflexivity.
    apply IH; try assumption. discriminate.
Qed.

Lemma static_all fs : existsb ends_block fs = false -> Forall (fun f => ends_block f = false) fs.
Proof.
  induction fs as [|f r IH]; cbn [existsb]; intros H; [constructor|]. apply orb_false_iff in H. destruct H as [H1 H2].
  constructor; [exact H1|apply IH; exact H2].
Qed.

Lemma last_in {A} (l : list A) d : l <> [] -> In (last l d) l.
Proof.
  induction l as [|x l IH]; [congruence|]. intros _. destruct l as [|y l']; [left; reflexivity|].
  right. apply IH. discriminate.
Qed.

Theorem cpp_size_eq t : sizeP t.
Proof.
  induction t as [k| |vals|fs IH|arms IH] using ty_ind'; intros v Hl Hw.
  - destruct v; try discriminate. cbn [cpp_size layout pc_size]. rewrite pc_builtin_size_spec. cbn. lia.
  - destruct v; try discriminate. reflexivity.
  - destruct v; try discriminate. cbn [cpp_size layout pc_size]. rewrite pc_enum_size_spec. reflexivity.
  - pose proof Hl as Hl0. apply wt_struct in Hw. destruct Hw as [vs [-> [H2 _]]].
    apply legal_struct in Hl. destruct Hl as [Hne Hok].
    assert (Hboth : Forall (fun f => pc_align (snd f) = align (snd f) /\ pc_size (snd f) = size (snd f)) fs).
    { rewrite Forall_forall in *. intros f Hf. destruct (Hok f Hf) as [Hlf _]. apply (pc_layout_eq (snd f) Hlf). }
    assert (Ha : Forall (fun f => pc_align (snd f) = align (snd f)) fs).
    { apply Forall_forall. intros y Hy. rewrite Forall_forall in Hboth. apply (Hboth y Hy). }
    cbn [cpp_size layout]. fold (pcms fs).
    pose proof (lay_fields_end (salign align fs) fs vs false 0) as Hend. cbn zeta in Hend. rewrite Z.add_0_l in Hend. rewrite Hend.
    set (e := fields_end fs vs false 0).
    unfold pc_paddings, pc_struct_layout. fold (pcms fs).
    destruct fs as [|f0 r0]; [congruence|]. cbn [legal] in Hl0.
    destruct (pc_partial (pcms (f0 :: r0)) false) as [|m0 ms] eqn:Ep; [discriminate Ep|]. rewrite <- Ep. cbn zeta.
    destruct (pc_walk m0 (pc_partial (pcms (f0 :: r0)) false) 0) as [[ps lastm] bs] eqn:Ew. cbn [snd].
    assert (Eps : ps = fst (fst (pc_walk m0 (pc_partial (pcms (f0 :: r0)) false) 0))) by (rewrite Ew; reflexivity).
    assert (Elm : lastm = snd (fst (pc_walk m0 (pc_partial (pcms (f0 :: r0)) false) 0))) by (rewrite Ew; reflexivity).
    assert (Ebs : bs = snd (pc_walk m0 (pc_partial (pcms (f0 :: r0)) false) 0)) by (rewrite Ew; reflexivity).
    set (alignment := pc_max_align (pc_partial (pcms (f0 :: r0)) false)).
    assert (Ealn : alignment = salign align (f0 :: r0)).
    { unfold alignment. destruct (amax_pcms (f0 :: r0) Hok Ha) as [_ A2].
      rewrite pc_max_align_amax, amax_partial, A2 by (apply partial_align_ge, pcms_align_ge; assumption). reflexivity. }
    set (plast := if existsb pm_member_dynamic (pc_partial (pcms (f0 :: r0)) false)
                  then (if (pm_align lastm <? alignment) || pm_optional lastm then - alignment else 0)
                  else pc_final_padding alignment bs).
    rewrite Eps.
    pose proof (size_walk (f0 :: r0) [] Hl0 Hboth IH ltac:(discriminate) vs H2 m0 false 0 0 8 plast) as Hw.
    cbn [hd] in Hw. rewrite (pad_zero (falign align f0) 0 (falign_ok f0)) in Hw
      by (apply Z.mod_0_l; pose proof (falign_ok f0) as Hx; apply okal_pos in Hx; lia).
    change (0 + 0) with 0 in Hw.
    rewrite Hw by (split; [unfold okal; lia|]; split; [apply blockal_le8|reflexivity]).
    fold e. pose proof (salign_ok (f0 :: r0)) as Hsa.
    unfold fin_step. cbn zeta. unfold plast. rewrite (dynamic_exists (f0 :: r0) [] false Hl0 Ha), Ealn.
    destruct (walk_last (f0 :: r0) [] Hl0 Ha ltac:(discriminate) m0 false 0) as [W1 [W2 W3]].
    rewrite <- Elm in W1, W2, W3.
    assert (Wal : pm_align lastm = falign align (last (f0 :: r0) (FPlain, TByte))).
    { destruct r0 as [|g r']; [exact W2|exact W1]. }
    clear W1 W2. change (fkind * ty)%type with field in *.
    remember (last (f0 :: r0) (FPlain, TByte)) as l eqn:El.
    destruct (existsb ends_block (f0 :: r0)) eqn:Edy.
    + (* some member is dynamic *)
      rewrite Wal, W3.
      destruct ((falign align l <? salign align (f0 :: r0)) || match fst l with FOpt => true | _ => false end) eqn:Ec.
      * assert (E : (- salign align (f0 :: r0) <? 0) = true) by (apply okal_pos in Hsa; lia). rewrite E.
        rewrite Z.opp_involutive, cpp_nearest_spec by exact Hsa.
        assert (Em : Z.max (- salign align (f0 :: r0)) 0 = 0) by (apply okal_pos in Hsa; lia). rewrite Em.
        destruct (is_static l); rewrite ?Z.add_0_r; reflexivity.
      * apply orb_false_iff in Ec. destruct Ec as [Ec1 Ec2].
        change (0 <? 0) with false. cbn iota. change (Z.max 0 0) with 0.
        assert (Hno : fst l <> FOpt) by (intros E; rewrite E in Ec2; discriminate).
        assert (Hno' : fst (last (f0 :: r0) (FPlain, TByte)) <> FOpt) by (rewrite <- El; exact Hno).
        pose proof (fields_end_mod (f0 :: r0) Hok ltac:(discriminate) vs H2 false 0 Hno') as Hm. rewrite <- El in Hm. fold e in Hm.
        assert (Hle : falign align l <= salign align (f0 :: r0)) by (apply falign_le_salign; rewrite El; apply last_in; discriminate).
        assert (Eeq : falign align l = salign align (f0 :: r0)) by lia.
        rewrite Eeq in Hm. rewrite (pad_zero _ e Hsa Hm). destruct (is_static l); lia.
    + (* every member is static *)
      pose proof (static_all _ Edy) as Hst.
      assert (Estl : is_static l = true).
      { unfold is_static. rewrite Forall_forall in Hst. rewrite (Hst l); [reflexivity|rewrite El; apply last_in; discriminate]. }
      rewrite Estl, pc_final_padding_spec by exact Hsa.
      rewrite Ebs, (sz_fields_walk [] (f0 :: r0) Hl0 Hboth).
      unfold e. rewrite (fields_end_static (f0 :: r0) Hok Hst vs H2 0).
      pose proof (pad_nonneg (salign align (f0 :: r0)) (sz_fields size (f0 :: r0) false 0) Hsa) as Hnn.
      assert (E : (pad (salign align (f0 :: r0)) (sz_fields size (f0 :: r0) false 0) <? 0) = false) by lia.
      rewrite E, Z.max_l by lia. reflexivity.
  - (* union: get_byte_size returns byte_size *)
    destruct (layout_lengths (TUnion arms) v Hl Hw) as [_ [_ H3]].
    assert (Hfx : is_fixed (TUnion arms) = true) by reflexivity.
    rewrite (H3 Hfx). destruct v; cbn [cpp_size]; apply (pc_layout_eq (TUnion arms) Hl).
Qed.
