(* proofs/PcValidateFacts.v — the front-end's checks accept exactly the schemas the documented
   composability rules ([legal], spec/Schema.v) allow. *)
From Coq Require Import ZArith List Bool Lia Btauto.
From Prophy Require Import Bytes Schema PcModel PcValidate Views PcFacts.
Import ListNotations.
Local Open Scope Z_scope.

(* [legal_field] without the recursive part *)
Definition rule_field (pre : list field) (last : bool) (f : field) : bool :=
  let t := snd f in
  match fst f with
  | FPlain => not_byte t && (last || negb (stiff_eqb (stiffness t) Unlimited))
  | FOpt => not_byte t && is_fixed t
  | FFixed n => (0 <? n) && is_fixed t
  | FBound s =>
      negb (stiff_eqb (stiffness t) Unlimited) &&
      match nth_error pre s with Some (FPlain, ts) => int_scalar ts | _ => false end
  | FLimited n s =>
      (0 <? n) && is_fixed t &&
      match nth_error pre s with Some (FPlain, ts) => int_scalar ts | _ => false end
  | FGreedy => last && negb (stiff_eqb (stiffness t) Unlimited)
  end.

Fixpoint rule_fields (pre : list field) (fs : list field) : bool :=
  match fs with
  | [] => true
  | f :: r => rule_field pre (match r with [] => true | _ => false end) f && rule_fields (pre ++ [f]) r
  end.

Lemma legal_field_split pre last f : legal_field legal pre last f = legal (snd f) && rule_field pre last f.
Proof. reflexivity. Qed.

Lemma legal_fields_split pre fs :
  legal_fields legal pre fs = forallb (fun f => legal (snd f)) fs && rule_fields pre fs.
Proof.
  revert pre. induction fs as [|f r IH]; intros pre; [reflexivity|].
  cbn [legal_fields forallb rule_fields]. rewrite legal_field_split, IH. btauto.
Qed.

(* the per-member content of the three loops and the grammar, with the spec's stiffness for the kinds *)
Definition sizer_at (pre : list field) (s : nat) : bool :=
  match nth_error pre s with Some b => int_scalar (snd b) && is_plain (fst b) | None => false end.

Definition sizer_ok (pre : list field) (f : field) : bool :=
  match sizer_of (fst f) with
  | None => true
  | Some s => sizer_at pre s
  end.

Definition kcode (t : ty) : Z := stiff_code (stiffness t).

Lemma sizer_match pre s :
  match nth_error pre s with Some (FPlain, ts) => int_scalar ts | _ => false end
  = sizer_at pre s.
Proof.
  unfold sizer_at, field. destruct (nth_error pre s) as [[k ts]|] eqn:E; [|reflexivity]. cbn [fst snd].
  destruct k; cbn [is_plain]; rewrite ?andb_true_r, ?andb_false_r; reflexivity.
Qed.

Lemma rule_field_parts pre last f :
  rule_field pre last f
  = sizer_ok pre f && (last || v_notlast kcode f) && v_kinds kcode f && v_grammar f.
Proof.
  destruct f as [k t]. unfold rule_field, sizer_ok, v_notlast, v_kinds, v_grammar, kcode, is_fixed.
  cbn [fst snd]. destruct k as [| |n|s|n s|]; cbn [sizer_of is_array is_opt is_greedy has_size negb];
    rewrite ?sizer_match;
    destruct (stiffness t); cbn [stiff_code stiff_eqb]; unfold K_UNLIMITED, K_FIXED;
    rewrite ?(Z.eqb_refl); change (0 =? 2) with false; change (1 =? 2) with false; change (1 =? 0) with false;
    change (2 =? 0) with false; destruct last; btauto.
Qed.

Lemma loops_rules pre fs :
  v_loop1 (pre ++ fs) (length pre) fs && forallb (v_notlast kcode) (removelast fs)
  && forallb (v_kinds kcode) fs && forallb v_grammar fs
  = rule_fields pre fs.
Proof.
  revert pre. induction fs as [|f r IH]; intros pre; [reflexivity|].
  cbn [v_loop1 rule_fields forallb].
  assert (Hs : v_sizer (pre ++ f :: r) (length pre) f = sizer_ok pre f).
  { unfold v_sizer, sizer_ok, sizer_at. rewrite firstn_app, Nat.sub_diag, firstn_all. cbn [firstn]. rewrite app_nil_r. reflexivity. }
  rewrite Hs. specialize (IH (pre ++ [f])). rewrite <- app_assoc in IH. cbn [app] in IH.
  rewrite app_length in IH. cbn [length] in IH. rewrite Nat.add_1_r in IH.
  rewrite <- IH. rewrite rule_field_parts.
  destruct r as [|g r'].
  - cbn [removelast forallb v_loop1]. btauto.
  - change (removelast (f :: g :: r')) with (f :: removelast (g :: r')). cbn [forallb]. btauto.
Qed.

Lemma v_struct_rules fs : v_struct kcode fs = rule_fields [] fs.
Proof. unfold v_struct. exact (loops_rules [] fs). Qed.

(* the checks only look at the kinds of the member types *)
Lemma v_struct_ext (k1 k2 : ty -> Z) fs :
  Forall (fun f => k1 (snd f) = k2 (snd f)) fs -> v_struct k1 fs = v_struct k2 fs.
Proof.
  intros H. unfold v_struct.
  assert (H1 : forall all i, v_loop1 all i fs = v_loop1 all i fs) by reflexivity.
  assert (Hn : forall l, Forall (fun f => k1 (snd f) = k2 (snd f)) l -> forallb (v_notlast k1) l = forallb (v_notlast k2) l).
  { induction 1 as [|x l Hx _ IHl]; [reflexivity|]. cbn [forallb]. unfold v_notlast at 1 3. rewrite Hx, IHl. reflexivity. }
  assert (Hk : forall l, Forall (fun f => k1 (snd f) = k2 (snd f)) l -> forallb (v_kinds k1) l = forallb (v_kinds k2) l).
  { induction 1 as [|x l Hx _ IHl]; [reflexivity|]. cbn [forallb]. unfold v_kinds at 1 3. rewrite Hx, IHl. reflexivity. }
  rewrite <- !andb_assoc. f_equal. f_equal; [|f_equal; apply Hk; exact H].
  apply Hn.
  clear -H. induction H as [|x l Hx Hl IHl]; [constructor|]. destruct l as [|y l']; [constructor|].
  change (removelast (x :: y :: l')) with (x :: removelast (y :: l')). constructor; [exact Hx|exact IHl].
Qed.

(* discriminators: the seen-set walk is the spec's duplicate test *)
Lemma v_discs_nodup seen ds :
  v_discs seen ds = nodupZ ds && forallb (fun d => negb (existsb (Z.eqb d) seen)) ds.
Proof.
  revert seen. induction ds as [|d r IH]; intros seen; [reflexivity|].
  cbn [v_discs nodupZ forallb]. rewrite IH.
  assert (H : forallb (fun x => negb (existsb (Z.eqb x) (d :: seen))) r
              = negb (existsb (Z.eqb d) r) && forallb (fun x => negb (existsb (Z.eqb x) seen)) r).
  { clear. induction r as [|x r IH]; [reflexivity|]. cbn [forallb]. rewrite IH.
    change (existsb (Z.eqb x) (d :: seen)) with ((x =? d) || existsb (Z.eqb x) seen).
    change (existsb (Z.eqb d) (x :: r)) with ((d =? x) || existsb (Z.eqb d) r).
    rewrite (Z.eqb_sym x d). btauto. }
  rewrite H. btauto.
Qed.

Lemma v_arm_rule a : legal (snd a) = true ->
  v_arm pc_kind a = u32_ok (fst a) && not_byte (snd a) && is_fixed (snd a).
Proof.
  intros Hl. unfold v_arm. rewrite (pc_kind_eq (snd a) Hl). unfold is_fixed.
  destruct (stiffness (snd a)); cbn [stiff_code stiff_eqb]; unfold K_FIXED;
    rewrite ?(Z.eqb_refl); change (1 =? 0) with false; change (2 =? 0) with false; btauto.
Qed.

Lemma forallb_false_l {A} (p q : A -> bool) l : forallb p l = false -> forallb (fun x => p x && q x) l = false.
Proof.
  induction l as [|x r IH]; cbn [forallb]; [discriminate|]. intros H.
  destruct (p x); cbn [andb] in *; [|reflexivity]. rewrite (IH H). apply andb_false_r.
Qed.

Theorem pc_accepts_legal t : pc_accepts t = legal t.
Proof.
  induction t as [k| |vals|fs IH|arms IH] using ty_ind'; try reflexivity.
  - (* struct *)
    cbn [pc_accepts legal]. destruct fs as [|f0 r0]; [reflexivity|]. set (fs := f0 :: r0) in *.
    rewrite legal_fields_split.
    assert (Hch : forallb (fun f => pc_accepts (snd f)) fs = forallb (fun f => legal (snd f)) fs).
    { clear -IH. induction IH as [|x l Hx _ IHl]; [reflexivity|]. cbn [forallb]. rewrite Hx, IHl. reflexivity. }
    rewrite Hch. destruct (forallb (fun f => legal (snd f)) fs) eqn:Hall; [|reflexivity]. cbn [andb].
    rewrite <- v_struct_rules. apply v_struct_ext.
    rewrite forallb_forall in Hall. apply Forall_forall. intros f Hf. unfold kcode. apply pc_kind_eq. apply Hall. exact Hf.
  - (* union *)
    cbn [pc_accepts legal]. destruct arms as [|a0 r0]; [reflexivity|]. set (arms := a0 :: r0) in *.
    assert (Hch : forallb (fun a => pc_accepts (snd a)) arms = forallb (fun a => legal (snd a)) arms).
    { clear -IH. induction IH as [|x l Hx _ IHl]; [reflexivity|]. cbn [forallb]. rewrite Hx, IHl. reflexivity. }
    rewrite Hch. unfold v_union. rewrite v_discs_nodup. cbn [existsb negb].
    assert (Ht : forallb (fun _ : Z => true) (map fst arms) = true) by (clear; induction arms; [reflexivity|assumption]).
    rewrite Ht, andb_true_r.
    destruct (forallb (fun a => legal (snd a)) arms) eqn:Hall.
    + cbn [andb]. f_equal. clear Ht Hch IH. rewrite forallb_forall in Hall.
      assert (E : forall l, (forall a, In a l -> legal (snd a) = true) ->
                  forallb (v_arm pc_kind) l = forallb (legal_arm legal) l).
      { induction l as [|a l IHl]; intros Hl; [reflexivity|]. cbn [forallb].
        rewrite IHl by (intros; apply Hl; right; assumption).
        rewrite v_arm_rule by (apply Hl; left; reflexivity). unfold legal_arm.
        rewrite (Hl a (or_introl eq_refl)). btauto. }
      apply E. exact Hall.
    + cbn [andb]. symmetry.
      assert (E : forallb (legal_arm legal) arms = false).
      { clear -Hall. induction arms as [|a l IHl]; [discriminate|]. cbn [forallb] in *.
        unfold legal_arm at 1. destruct (legal (snd a)); cbn [andb] in *.
        - rewrite (IHl Hall). btauto.
        - btauto. }
      rewrite E. reflexivity.
Qed.
