(* proofs/Views.v — Forall-shaped views of [legal] and [wt], so later proofs never unfold the
   nested fixpoints again. *)
From Coq Require Import ZArith List Bool Lia ZifyBool.
From Prophy Require Import Bytes Schema Layout Arith.
Import ListNotations.
Local Open Scope Z_scope.

(* facts about one member that do not depend on its position *)
Definition fok (f : field) : Prop :=
  legal (snd f) = true /\
  match fst f with
  | FPlain => not_byte (snd f) = true
  | FOpt => not_byte (snd f) = true /\ is_fixed (snd f) = true
  | FFixed n => 0 < n /\ is_fixed (snd f) = true
  | FLimited n _ => 0 < n /\ is_fixed (snd f) = true
  | FBound _ | FGreedy => stiffness (snd f) <> Unlimited
  end.

Lemma stiff_eqb_eq a b : stiff_eqb a b = true <-> a = b.
Proof. destruct a, b; cbn; split; intros H; try reflexivity; try discriminate. Qed.

Lemma stiff_eqb_neq a b : stiff_eqb a b = false <-> a <> b.
Proof. destruct a, b; cbn; split; intros H; try reflexivity; try discriminate; try congruence; exfalso; apply H; reflexivity. Qed.

Lemma legal_field_fok pre last f : legal_field legal pre last f = true -> fok f.
Proof.
  unfold legal_field, fok. intros H. apply andb_prop in H. destruct H as [Hl H]. split; [exact Hl|].
  destruct (fst f).
  - apply andb_prop in H; tauto.
  - apply andb_prop in H; tauto.
  - apply andb_prop in H. destruct H as [H1 H2]. split; [lia|exact H2].
  - apply andb_prop in H. destruct H as [H1 _]. apply negb_true_iff in H1.
    apply stiff_eqb_neq in H1. exact H1.
  - apply andb_prop in H. destruct H as [H1 _]. apply andb_prop in H1. destruct H1 as [H1 H2].
    split; [lia|exact H2].
  - apply andb_prop in H. destruct H as [_ H1]. apply negb_true_iff in H1.
    apply stiff_eqb_neq in H1. exact H1.
Qed.

Lemma legal_fields_fok pre fs : legal_fields legal pre fs = true -> Forall fok fs.
Proof.
  revert pre. induction fs as [|f r IH]; intros pre H; [constructor|].
  cbn [legal_fields] in H. apply andb_prop in H. destruct H as [H1 H2].
  constructor; [eapply legal_field_fok; exact H1|eapply IH; exact H2].
Qed.

Lemma legal_struct fs : legal (TStruct fs) = true -> fs <> [] /\ Forall fok fs.
Proof.
  cbn [legal]. destruct fs as [|f r]; [discriminate|]. intros H. split; [discriminate|].
  eapply legal_fields_fok; exact H.
Qed.

Definition aok (a : Z * ty) : Prop :=
  0 <= fst a < 2 ^ 32 /\ legal (snd a) = true /\ not_byte (snd a) = true /\ is_fixed (snd a) = true.

Lemma legal_union arms : legal (TUnion arms) = true ->
  arms <> [] /\ Forall aok arms /\ nodupZ (map fst arms) = true.
Proof.
  cbn [legal]. destruct arms as [|a r]; [discriminate|]. intros H.
  apply andb_prop in H. destruct H as [H1 H2]. split; [discriminate|]. split; [|exact H2].
  rewrite forallb_forall in H1. apply Forall_forall. intros x Hx. specialize (H1 x Hx).
  unfold legal_arm, u32_ok in H1. unfold aok.
  repeat (apply andb_prop in H1; destruct H1 as [H1 ?]). repeat split; try assumption; lia.
Qed.

Lemma wt_fields_view fs vs : wt_fields wt fs vs = true -> Forall2 (fun f v => wt_field wt f v = true) fs vs.
Proof.
  revert vs. induction fs as [|f r IH]; intros [|v vr] H; cbn [wt_fields] in H; try discriminate; [constructor|].
  apply andb_prop in H. destruct H as [H1 H2]. constructor; [exact H1|apply IH; exact H2].
Qed.

Lemma wt_struct fs v : wt (TStruct fs) v = true ->
  exists vs, v = VStruct vs /\ Forall2 (fun f v => wt_field wt f v = true) fs vs /\ counts_ok vs fs vs = true.
Proof.
  destruct v; cbn [wt]; try discriminate. intros H. apply andb_prop in H. destruct H as [H1 H2].
  exists vs. split; [reflexivity|]. split; [apply wt_fields_view; exact H1|exact H2].
Qed.

Lemma wt_union arms v : wt (TUnion arms) v = true ->
  exists i x, v = VUnion i x /\ wt_arms wt arms i x = true.
Proof. destruct v; cbn [wt]; try discriminate. intros H. eauto. Qed.

Lemma wt_arms_nth arms i x : wt_arms wt arms i x = true ->
  exists a, nth_error arms i = Some a /\ wt (snd a) x = true.
Proof.
  revert i. induction arms as [|a r IH]; intros [|j] H; cbn [wt_arms] in H; try discriminate.
  - exists a. split; [reflexivity|exact H].
  - apply IH in H. exact H.
Qed.

Lemma forallb_Forall {A} (p : A -> bool) l : forallb p l = true -> Forall (fun x => p x = true) l.
Proof. intros H. apply Forall_forall. apply forallb_forall. exact H. Qed.
