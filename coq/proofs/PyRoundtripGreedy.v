(* proofs/PyRoundtripGreedy.v — C02 (model level) for messages WITH a greedy tail that ends aligned:
   decoding the canonical encoding gives the value back and consumes exactly the encoding. "Ends aligned"
   ([tail_clean]): the final padding of every struct on the path down to the greedy array is empty, so
   nothing follows the last element. *)
From Coq Require Import ZArith List Bool Lia ZifyBool.
From Prophy Require Import Bytes Schema Layout Wire Src PyStatics PyEncode PyDecode
  PcModel Arith SpecAlign Views SpecLen BytesFacts SrcFacts PyStaticsFacts PyEncodeFacts PyDecodeFacts PyRoundtrip PcFacts.
Import ListNotations.
Local Open Scope Z_scope.
Ltac Zify.zify_post_hook ::= Z.to_euclidean_division_equations.

(* offset at which the members end, before the struct's final padding *)
Fixpoint fend (fs : list field) (vs : list value) (after : bool) (o : Z) : Z :=
  match fs, vs with
  | f :: r, v :: vr =>
      let a := if after then blockal (f :: r) else falign align f in
      let p := pad a o in
      fend r vr (ends_block f) (o + p + segslen (lay_body layout f v (o + p)))
  | _, _ => o
  end.

Lemma lay_fields_fend sa fs : forall vs after o,
  o + segslen (lay_fields layout sa fs vs after o) = (let e := fend fs vs after o in e + pad sa e).
Proof.
  induction fs as [|f r IH]; intros [|v vr] after o; cbn [lay_fields fend]; cbn zeta;
    try (cbn [segslen fold_right seglen]; lia).
  rewrite segslen_cons, segslen_app. cbn [seglen]. specialize (IH vr (ends_block f)
    (o + pad (if after then blockal (f :: r) else falign align f) o +
     segslen (lay_body layout f v (o + pad (if after then blockal (f :: r) else falign align f) o)))).
  cbn zeta in IH. lia.
Qed.

Section TC.
  Variable tcT : ty -> value -> bool.
  Fixpoint tail_last (fs : list field) (vs : list value) : bool :=
    match fs, vs with
    | [f], [v] =>
        match fst f with
        | FPlain => if stiff_eqb (stiffness (snd f)) Unlimited then tcT (snd f) v else true
        | _ => true
        end
    | _ :: r, _ :: vr => tail_last r vr
    | _, _ => true
    end.
End TC.

(* the greedy tail of the message ends on the alignment boundary of every enclosing struct *)
Fixpoint tail_clean (t : ty) (v : value) {struct t} : bool :=
  match t, v with
  | TStruct fs, VStruct vs =>
      (if stiff_eqb (stiffness (TStruct fs)) Unlimited then pad (salign align fs) (fend fs vs false 0) =? 0 else true)
      && tail_last tail_clean fs vs
  | _, _ => true
  end.

(* the induction hypothesis for unlimited types: nothing may follow them *)
Definition rtU (t : ty) : Prop :=
  legal t = true -> PyDecode.is_comp t = true -> stiffness t = Unlimited ->
  forall e fuel v data pre terminal, Z.of_nat fuel > len data ->
    data = pre ++ render e (layout t v (len pre)) ->
    wt t v = true -> within_guard t v = true -> tail_clean t v = true ->
    len pre mod align t = 0 ->
    py_dec e data fuel t (len pre) terminal = Ok (v, segslen (layout t v (len pre))).

Section G.
  Variable e : endian.
  Variable fuel : nat.
  Variable data : bytes.
  Hypothesis Hfuel : Z.of_nat fuel > len data.
  Let decT := py_dec e data fuel.

  (* a composite element occupies at least one byte *)
  Lemma elem_nonempty t x o : legal t = true -> PyDecode.is_comp t = true -> stiffness t <> Unlimited ->
    wt t x = true -> within_guard t x = true -> o mod align t = 0 -> 0 <= o -> 1 <= segslen (layout t x o).
  Proof.
    intros Hl Hc Hu Hw Hg Ho Ho0.
    (* decode the element alone, inside a buffer that holds only it after [o] zero bytes *)
    set (pre := zeros o). assert (Hlp : len pre = o) by (apply len_zeros; exact Ho0).
    pose proof (py_dec_roundtrip t Hl Hc Hu e (S (length (pre ++ render e (layout t x (len pre)) ++ []))) x
                  (pre ++ render e (layout t x (len pre)) ++ []) pre [] false eq_refl Hw Hg ltac:(rewrite Hlp; exact Ho) ltac:(discriminate)) as Hrt.
    pose proof (py_dec_total e (pre ++ render e (layout t x (len pre)) ++ []) (S (length (pre ++ render e (layout t x (len pre)) ++ [])))
                  ltac:(unfold len; lia) t Hl Hc (len pre) false ltac:(rewrite Hlp; exact Ho0)) as Ht.
    rewrite Hrt in Ht. cbn [good] in Ht.
    assert (Es : stiff_eqb (stiffness t) Unlimited = false) by (apply stiff_eqb_neq; exact Hu).
    rewrite Es, Hlp in Ht. exact Ht.
  Qed.

  (* bound_composite_array._decode_impl, greedy branch, on the canonical image of the elements *)
  Lemma greedy_rt t : legal t = true -> PyDecode.is_comp t = true -> stiffness t <> Unlimited ->
    forall xs (pos0 : Z) (pre : bytes) fuel', data = pre ++ render e (lay_elems layout t xs (len pre)) ->
    forallb (wt t) xs = true -> forallb (within_guard t) xs = true -> len pre mod align t = 0 ->
    pos0 <= len pre -> Z.of_nat fuel' + len pre > len data ->
    (forall pre' post' x, data = pre' ++ render e (layout t x (len pre')) ++ post' -> wt t x = true -> within_guard t x = true ->
        len pre' mod align t = 0 -> decT t (len pre') false = Ok (x, segslen (layout t x (len pre')))) ->
    py_dec_greedy data decT t pos0 fuel' (len pre - pos0)
    = Ok (xs, len pre - pos0 + segslen (lay_elems layout t xs (len pre))).
  Proof.
    intros Hl Hc Hu xs. induction xs as [|x xr IH]; intros pos0 pre fuel' Hd Hw Hg Ha Hle Hf Hdec.
    - rewrite lay_elems_nil in *. cbn [render map concat] in Hd. rewrite app_nil_r in Hd. subst data.
      destruct fuel' as [|f']; cbn [py_dec_greedy];
        replace (pos0 + (len pre - pos0)) with (len pre) by lia; rewrite Z.ltb_irrefl; cbn; do 2 f_equal; lia.
    - cbn [forallb] in Hw, Hg. apply andb_prop in Hw. destruct Hw as [Hwx Hwr]. apply andb_prop in Hg. destruct Hg as [Hgx Hgr].
      rewrite lay_elems_cons in *. rewrite render_app in Hd.
      destruct (layout_lengths_at t x (len pre) Hl Hwx Ha) as [L1 [L2 _]].
      set (B := render e (layout t x (len pre))) in *.
      assert (HlB : len B = segslen (layout t x (len pre))) by (apply len_render; assumption).
      pose proof (elem_nonempty t x (len pre) Hl Hc Hu Hwx Hgx Ha (len_nonneg pre)) as H1.
      assert (Hlen : len data = len pre + len B + len (render e (lay_elems layout t xr (len pre + segslen (layout t x (len pre)))))).
      { rewrite Hd, !len_app. lia. }
      pose proof (len_nonneg (render e (lay_elems layout t xr (len pre + segslen (layout t x (len pre)))))) as Hr0.
      destruct fuel' as [|f']; [lia|]. cbn [py_dec_greedy].
      replace (pos0 + (len pre - pos0)) with (len pre) by lia.
      assert (E : (len pre <? len data) = true) by lia. rewrite E.
      rewrite (Hdec pre (render e (lay_elems layout t xr (len pre + segslen (layout t x (len pre))))) x); try assumption;
        try (rewrite Hd; fold B; reflexivity).
      cbn [bind fst snd].
      specialize (IH pos0 (pre ++ B) f'). rewrite len_app, HlB in IH.
      replace (len pre - pos0 + segslen (layout t x (len pre))) with (len pre + segslen (layout t x (len pre)) - pos0) by lia.
      rewrite IH; try assumption.
      + cbn [bind fst snd]. rewrite segslen_app. do 2 f_equal. lia.
      + rewrite Hd. rewrite <- app_assoc. reflexivity.
      + apply add_mod_keep; [apply align_ok|assumption..].
      + lia.
      + lia.
  Qed.

  Lemma rtP_scalar t : PyDecode.is_comp t = false -> rtP t.
  Proof. intros Hc _ Hc'. rewrite Hc in Hc'. discriminate Hc'. Qed.

  (* the last member of an unlimited struct: a greedy array, or a nested unlimited struct *)
  Lemma field_rt_unl all_fs decoded i f v pre :
    fok f -> fstiff stiffness f = Unlimited ->
    (fst f = FPlain -> rtU (snd f)) ->
    data = pre ++ render e (lay_body layout f v (len pre)) ->
    wt_field wt f v = true -> guard_field within_guard f v = true ->
    (fst f = FPlain -> tail_clean (snd f) v = true) ->
    len pre mod falign align f = 0 -> is_sizer all_fs i = false ->
    py_dec_field e data decT fuel all_fs decoded i f (len pre) = Ok (v, segslen (lay_body layout f v (len pre))).
  Proof.
    intros Hok Hu HU Hd Hw Hg Htc Ha Hns. pose proof Hok as [Hl Hk].
    assert (Ha' : len pre mod align (snd f) = 0).
    { apply (mod_down _ (falign align f)); [apply align_ok|apply falign_ok|apply align_le_falign|exact Ha]. }
    pose proof (len_nonneg pre) as Hpre.
    unfold py_dec_field. cbn zeta. unfold lay_body, wt_field, guard_field, fstiff in *.
    revert Hk Hu HU Hd Hw Hg Htc.
    destruct (fst f) eqn:Ek; intros Hk Hu HU Hd Hw Hg Htc; try discriminate Hu.
    - (* nested unlimited struct *)
      rewrite Hns. destruct (snd f) eqn:Et; try discriminate Hu.
      rewrite <- Et in *. cbn [py_dec_base]. rewrite Et. cbn [py_dec_base]. rewrite <- Et. unfold decT.
      apply (HU eq_refl Hl ltac:(rewrite Et; reflexivity) Hu e fuel v data pre false Hfuel Hd Hw Hg (Htc eq_refl) Ha').
    - (* greedy array *)
      destruct v as [z| |y|xs|ws|c y]; try discriminate Hw.
      pose proof (forallb_Forall _ _ Hw) as HwF.
      destruct (elems_len _ (layout_lengths (snd f)) Hl xs HwF (len pre) Ha') as [L1 [L2 L3]].
      set (B := render e (lay_elems layout (snd f) xs (len pre))) in *.
      assert (HlB : len B = segslen (lay_elems layout (snd f) xs (len pre))) by (apply len_render; assumption).
      pose proof (segslen_nonneg _ L1) as Hsl.
      assert (Hlen : len data = len pre + len B) by (rewrite Hd, len_app; reflexivity).
      destruct (snd f) eqn:Et.
      + (* scalars *)
        subst B. rewrite <- Et in *. assert (Hnb : not_byte (snd f) = true) by (rewrite Et; reflexivity).
        assert (Hfx : is_fixed (snd f) = true) by (rewrite Et; reflexivity).
        specialize (L3 Hfx). pose proof (sk_size_pos k) as Hkp.
        assert (Esz : size (snd f) = sk_size k) by (rewrite Et; reflexivity).
        assert (Ec : (0 >? len data - len pre) = false) by lia. rewrite Ec.
        rewrite (py_sizeof_eq _ Hl Hfx).
        assert (Eit : (len data - len pre) / size (snd f) = len xs) by (rewrite Hlen, HlB, L3; replace (len pre + len xs * size (snd f) - len pre) with (len xs * size (snd f)) by lia; apply Z.div_mul; lia).
        assert (Erm : (len data - len pre) mod size (snd f) = 0) by (rewrite Hlen, HlB, L3; replace (len pre + len xs * size (snd f) - len pre) with (len xs * size (snd f)) by lia; apply Z.mod_mul; lia).
        rewrite Eit, Erm. cbn [Z.eqb]. rewrite Z.add_0_r.
        replace (Z.to_nat (len xs)) with (length xs) by (unfold len; lia). unfold decT.
        rewrite (dec_n_rt e fuel data (snd f) (rtP_scalar (snd f) ltac:(rewrite Et; reflexivity)) Hl Hnb ltac:(rewrite Et; discriminate) xs pre []);
          try assumption; [|rewrite app_nil_r; exact Hd].
        cbn [bind fst snd]. do 2 f_equal. lia.
      + (* bytes *)
        destruct (bytes_layout e xs (len pre) Hw) as [bs [E1 [E2 [E3 E4]]]]. fold B in E1. rewrite E1 in *.
        assert (Ec : (len data - len pre <? 0) = false) by (pose proof (len_nonneg bs); lia). rewrite Ec.
        rewrite Hd, skipn_mid. unfold vints. rewrite <- E2. do 2 f_equal. rewrite len_app. lia.
      + (* enums *)
        subst B. rewrite <- Et in *. assert (Hnb : not_byte (snd f) = true) by (rewrite Et; reflexivity).
        assert (Hfx : is_fixed (snd f) = true) by (rewrite Et; reflexivity).
        specialize (L3 Hfx).
        assert (Esz : size (snd f) = 4) by (rewrite Et; reflexivity).
        assert (Ec : (0 >? len data - len pre) = false) by lia. rewrite Ec.
        rewrite (py_sizeof_eq _ Hl Hfx).
        assert (Eit : (len data - len pre) / size (snd f) = len xs) by (rewrite Hlen, HlB, L3; replace (len pre + len xs * size (snd f) - len pre) with (len xs * size (snd f)) by lia; apply Z.div_mul; lia).
        assert (Erm : (len data - len pre) mod size (snd f) = 0) by (rewrite Hlen, HlB, L3; replace (len pre + len xs * size (snd f) - len pre) with (len xs * size (snd f)) by lia; apply Z.mod_mul; lia).
        rewrite Eit, Erm. cbn [Z.eqb]. rewrite Z.add_0_r.
        replace (Z.to_nat (len xs)) with (length xs) by (unfold len; lia). unfold decT.
        rewrite (dec_n_rt e fuel data (snd f) (rtP_scalar (snd f) ltac:(rewrite Et; reflexivity)) Hl Hnb ltac:(rewrite Et; discriminate) xs pre []);
          try assumption; [|rewrite app_nil_r; exact Hd].
        cbn [bind fst snd]. do 2 f_equal. lia.
      + (* structs *)
        subst B. rewrite <- Et in *. assert (Hc : PyDecode.is_comp (snd f) = true) by (rewrite Et; reflexivity).
        assert (Ec : (0 >? len data - len pre) = false) by lia. rewrite Ec.
        pose proof (greedy_rt (snd f) Hl Hc Hk xs (len pre) pre fuel Hd Hw Hg Ha' ltac:(lia) ltac:(lia)) as HG.
        rewrite Z.sub_diag in HG. unfold decT in *. rewrite HG.
        * cbn [bind fst snd]. do 2 f_equal. lia.
        * intros pre' post' x Hd' Hwx Hgx Hax. unfold decT.
          apply (py_dec_roundtrip (snd f) Hl Hc Hk e fuel x data pre' post' false Hd' Hwx Hgx Hax). discriminate.
      + subst B. rewrite <- Et in *. assert (Hc : PyDecode.is_comp (snd f) = true) by (rewrite Et; reflexivity).
        assert (Ec : (0 >? len data - len pre) = false) by lia. rewrite Ec.
        pose proof (greedy_rt (snd f) Hl Hc Hk xs (len pre) pre fuel Hd Hw Hg Ha' ltac:(lia) ltac:(lia)) as HG.
        rewrite Z.sub_diag in HG. unfold decT in *. rewrite HG.
        * cbn [bind fst snd]. do 2 f_equal. lia.
        * intros pre' post' x Hd' Hwx Hgx Hax. unfold decT.
          apply (py_dec_roundtrip (snd f) Hl Hc Hk e fuel x data pre' post' false Hd' Hwx Hgx Hax). discriminate.
  Qed.
End G.

(* ---- the member list of a struct whose last member may be unlimited ---- *)
Definition has_unl (fs : list field) : bool := existsb (fun f => stiff_eqb (fstiff stiffness f) Unlimited) fs.

Fixpoint unl_ok (all_fs : list field) (i : nat) (fs : list field) (vs : list value) : Prop :=
  match fs, vs with
  | [f], [v] =>
      fstiff stiffness f = Unlimited ->
      (fst f = FPlain -> rtU (snd f) /\ tail_clean (snd f) v = true) /\ is_sizer all_fs i = false
  | f :: r, v :: vr => fstiff stiffness f <> Unlimited /\ unl_ok all_fs (S i) r vr
  | _, _ => True
  end.

Lemma fend_repad r : forall vr o, length r = length vr -> fend r vr true (o + pad (blockal r) o) = fend r vr true o.
Proof.
  destruct r as [|g r']; intros [|w wr] o Hlen; cbn [length] in Hlen; try discriminate; cbn [fend].
  - cbn [blockal]. unfold pad. rewrite !Z.mod_1_r. lia.
  - cbv zeta. pose proof (blockal_ok (g :: r')) as Hb.
    rewrite (pad_zero (blockal (g :: r')) (o + pad (blockal (g :: r')) o) Hb (pad_aligned _ _ Hb)). rewrite Z.add_0_r. reflexivity.
Qed.

Section RTG.
  Variable e : endian.
  Variable fuel : nat.
  Variable data : bytes.
  Hypothesis Hfuel : Z.of_nat fuel > len data.
  Let decT := py_dec e data fuel.

  Lemma fields_rt_g sa all_fs all_vs : okal sa ->
    forall fs vs, Forall2 (fun f v => wt_field wt f v = true) fs vs ->
    Forall (fun f => rtP (snd f)) fs -> Forall fok fs ->
    salign align fs <= sa ->
    guard_fields within_guard fs vs = true ->
    forall decoded after pre post,
      unl_ok all_fs (length decoded) fs vs ->
      (has_unl fs = true -> post = [] /\ pad sa (fend fs vs after (len pre)) = 0) ->
      all_vs = decoded ++ vs -> HH all_vs (length decoded) fs vs -> HS all_fs (length decoded) fs vs ->
      data = pre ++ render e (lay_fields layout sa fs vs after (len pre)) ++ post ->
      (after = true -> len pre mod blockal fs = 0) ->
      py_dec_fields e data decT fuel sa all_fs fs (fst (py_scan fs)) (length decoded) decoded (len pre)
      = Ok (decoded ++ vs, len pre + segslen (lay_fields layout sa fs vs after (len pre))).
  Proof.
    intros Hsa fs vs H2. induction H2 as [|f v r vr Hfv Hr IHr];
      intros HIH Hok Hle Hg decoded after pre post Huo Hz Hall Hhh Hhs Hd Haft;
      change (fkind * ty)%type with field in *.
    - cbn [py_scan fst py_dec_fields lay_fields segslen fold_right seglen]. rewrite py_dist_pad by assumption.
      rewrite app_nil_r. do 2 f_equal. lia.
    - pose proof (Forall_inv HIH) as HPf. pose proof (Forall_inv_tail HIH) as HIHr.
      pose proof (Forall_inv Hok) as Hokf. pose proof (Forall_inv_tail Hok) as Hokr.
      cbn beta in HPf.
      rewrite salign_cons in Hle. cbn [guard_fields] in Hg. apply andb_prop in Hg. destruct Hg as [Hgf Hgr].
      pose proof (falign_ok f) as Hfa. pose proof (blockal_ok (f :: r)) as Hba. pose proof (blockal_ok r) as Hbr.
      pose proof (falign_le_blockal f r) as Hfb. pose proof (blockal_le r) as Hblr.
      pose proof (len_nonneg pre) as Hlp.
      rewrite py_scan_cons.
      set (p := pad (falign align f) (len pre)).
      assert (Hp : pad (if after then blockal (f :: r) else falign align f) (len pre) = p).
      { destruct after; [|reflexivity]. specialize (Haft eq_refl).
        rewrite (pad_zero _ _ Hba Haft). unfold p. symmetry. apply pad_zero; [assumption|].
        apply (mod_down _ (blockal (f :: r))); assumption. }
      pose proof (pad_nonneg _ (len pre) Hfa) as Hpr. fold p in Hpr.
      cbn [lay_fields] in Hd. rewrite Hp, render_pad_cons, render_app in Hd.
      set (pre1 := pre ++ zeros p).
      assert (Hl1 : len pre1 = len pre + p) by (unfold pre1; rewrite len_app, len_zeros by lia; lia).
      assert (Hof : len pre1 mod falign align f = 0) by (rewrite Hl1; apply pad_aligned; assumption).
      destruct (body_len f v (len pre + p) (layout_lengths (snd f)) Hokf Hfv ltac:(rewrite <- Hl1; exact Hof)) as [B1 _].
      set (B := render e (lay_body layout f v (len pre + p))) in *.
      assert (HlB : len B = segslen (lay_body layout f v (len pre + p))) by (apply len_render; assumption).
      pose proof (len_nonneg B) as HlB0.
      set (rest := render e (lay_fields layout sa r vr (ends_block f) (len pre + p + segslen (lay_body layout f v (len pre + p))))) in *.
      assert (Hbody : py_dec_field e data decT fuel all_fs decoded (length decoded) f (len pre1)
                      = Ok (v, segslen (lay_body layout f v (len pre1)))).
      { destruct (stiff_eqb (fstiff stiffness f) Unlimited) eqn:Eu.
        - (* the unlimited member: it is the last one and nothing follows it *)
          apply stiff_eqb_eq in Eu.
          assert (Er : r = [] /\ vr = []).
          { destruct r as [|g r']; [inversion Hr; split; reflexivity|]. destruct vr as [|w wr]; [inversion Hr|].
            cbn [unl_ok] in Huo. destruct Huo as [Hc _]. congruence. }
          destruct Er as [-> ->]. cbn [unl_ok] in Huo. destruct (Huo Eu) as [HU Hns].
          assert (Hhu : has_unl [f] = true) by (cbn [has_unl existsb]; rewrite Eu; reflexivity).
          destruct (Hz Hhu) as [-> Hpz]. cbn [fend] in Hpz. rewrite Hp in Hpz.
          unfold rest in Hd. cbn [lay_fields] in Hd. rewrite render_one in Hd. cbn [render_seg] in Hd.
          rewrite <- HlB in Hpz. rewrite HlB in Hpz. rewrite Hpz in Hd. cbn [zeros Z.to_nat repeat] in Hd. rewrite !app_nil_r in Hd.
          apply (field_rt_unl e fuel data Hfuel all_fs decoded (length decoded) f v pre1 Hokf Eu (fun Ek => proj1 (HU Ek))).
          + rewrite Hl1. fold B. rewrite Hd. unfold pre1. rewrite <- !app_assoc. reflexivity.
          + exact Hfv.
          + exact Hgf.
          + intros Ek. apply (proj2 (HU Ek)).
          + exact Hof.
          + exact Hns.
        - apply stiff_eqb_neq in Eu.
          apply (field_rt e fuel data all_fs decoded (length decoded) f v pre1 (rest ++ post)); try assumption.
          + rewrite Hl1. fold B. rewrite Hd. unfold pre1. rewrite <- !app_assoc. reflexivity.
          + intros s Hs. destruct (Hhh 0%nat f v eq_refl eq_refl s Hs) as [xs [Ev [Hn Hlt]]].
            exists xs. split; [exact Ev|]. rewrite Hall in Hn. rewrite nth_error_app1 in Hn by lia. exact Hn.
          + intros Ek Es. apply (Hhs 0%nat f v eq_refl eq_refl Ek). rewrite Nat.add_0_r. exact Es. }
      assert (Huo' : unl_ok all_fs (length (decoded ++ [v])) r vr).
      { rewrite app_length. cbn [length]. replace (length decoded + 1)%nat with (S (length decoded)) by lia.
        destruct r as [|g r']; [destruct vr; exact I|]. destruct vr as [|w wr]; [inversion Hr|].
        cbn [unl_ok] in Huo. apply Huo. }
      assert (Hz' : forall o', o' = len pre + p + segslen (lay_body layout f v (len pre + p)) ->
                 has_unl r = true -> post = [] /\ pad sa (fend r vr (ends_block f) o') = 0).
      { intros o' -> Hh. destruct Hz as [Z1 Z2]; [cbn [has_unl existsb]; fold (has_unl r); rewrite Hh; apply orb_true_r|].
        split; [exact Z1|]. cbn [fend] in Z2. cbv zeta in Z2. rewrite Hp in Z2. exact Z2. }
      assert (Hhh' : HH all_vs (length (decoded ++ [v])) r vr).
      { intros j g w Hg Hw s Hs. destruct (Hhh (S j) g w Hg Hw s Hs) as [xs [Ev [Hn Hlt]]].
        exists xs. repeat split; auto. rewrite app_length. cbn [length]. lia. }
      assert (Hhs' : HS all_fs (length (decoded ++ [v])) r vr).
      { intros j g w Hg Hw Ek Es. apply (Hhs (S j) g w Hg Hw Ek).
        rewrite app_length in Es. cbn [length] in Es. replace (length decoded + S j)%nat with (length decoded + 1 + j)%nat by lia. exact Es. }
      assert (Hall' : all_vs = (decoded ++ [v]) ++ vr) by (rewrite Hall, <- app_assoc; reflexivity).
      cbn [lay_fields]. rewrite Hp, segslen_cons, segslen_app. cbn [seglen].
      destruct (ends_block f) eqn:Ed; cbn [fst]; rewrite py_dec_fields_cons; cbn zeta;
        rewrite py_falign_eq', py_dist_pad by assumption; fold p; rewrite <- Hl1, Hbody; cbn [bind fst snd];
        rewrite Hl1, <- HlB.
      + rewrite py_dist_pad by assumption.
        set (o2 := len pre + p + len B).
        pose proof (pad_nonneg (blockal r) o2 Hbr) as Hq.
        set (pre2 := pre1 ++ B ++ zeros (pad (blockal r) o2)).
        assert (Hl2 : len pre2 = o2 + pad (blockal r) o2).
        { unfold pre2. rewrite !len_app, Hl1, len_zeros by lia. unfold o2. lia. }
        replace (length decoded) with (length decoded) by reflexivity.
        assert (Erest : rest = zeros (pad (blockal r) o2) ++ render e (lay_fields layout sa r vr true (o2 + pad (blockal r) o2))).
        { unfold rest. rewrite <- HlB. fold o2. apply lay_fields_repad; [assumption|lia]. }
        assert (HzT : has_unl r = true -> post = [] /\ pad sa (fend r vr true (len pre2)) = 0).
        { intros Hh. destruct (Hz' _ eq_refl Hh) as [Z1 Z2]. split; [exact Z1|].
          rewrite Hl2. rewrite fend_repad by (clear -Hr; induction Hr; cbn [length]; congruence). unfold o2. rewrite HlB. exact Z2. }
        specialize (IHr HIHr Hokr ltac:(lia) Hgr (decoded ++ [v]) true pre2 post Huo' HzT Hall' Hhh' Hhs').
        rewrite Hl2 in IHr. rewrite app_length in IHr. cbn [length] in IHr.
        replace (length decoded + 1)%nat with (S (length decoded)) in IHr by lia.
        rewrite IHr.
        * rewrite <- app_assoc. cbn [app]. do 2 f_equal.
          assert (Es : segslen (lay_fields layout sa r vr true o2)
                       = pad (blockal r) o2 + segslen (lay_fields layout sa r vr true (o2 + pad (blockal r) o2))).
          { destruct (fields_len sa r Hsa ltac:(apply Forall_forall; intros; apply layout_lengths) Hokr vr Hr true o2) as [S1 _].
            destruct (fields_len sa r Hsa ltac:(apply Forall_forall; intros; apply layout_lengths) Hokr vr Hr true (o2 + pad (blockal r) o2)) as [S2 _].
            pose proof (f_equal len (lay_fields_repad e sa r vr o2 Hsa ltac:(lia))) as HL.
            rewrite len_app, len_zeros, !len_render in HL by (try assumption; lia). exact HL. }
          unfold o2 in *. rewrite HlB in *. lia.
        * rewrite Hd. fold B. fold rest. rewrite Erest. unfold pre2, pre1. rewrite <- !app_assoc. reflexivity.
        * intros _. apply pad_aligned; assumption.
      + set (pre2 := pre1 ++ B).
        assert (Hl2 : len pre2 = len pre + p + len B) by (unfold pre2; rewrite len_app, Hl1; lia).
        assert (HzF : has_unl r = true -> post = [] /\ pad sa (fend r vr false (len pre2)) = 0).
        { intros Hh. destruct (Hz' _ eq_refl Hh) as [Z1 Z2]. split; [exact Z1|].
          rewrite Hl2, HlB. exact Z2. }
        specialize (IHr HIHr Hokr ltac:(lia) Hgr (decoded ++ [v]) false pre2 post Huo' HzF Hall' Hhh' Hhs').
        rewrite Hl2 in IHr. rewrite app_length in IHr. cbn [length] in IHr.
        replace (length decoded + 1)%nat with (S (length decoded)) in IHr by lia.
        rewrite IHr.
        * rewrite <- app_assoc. cbn [app]. do 2 f_equal. rewrite HlB. lia.
        * rewrite Hd. fold B. fold rest. unfold rest. rewrite HlB. unfold pre2, pre1. rewrite <- !app_assoc. reflexivity.
        * discriminate.
  Qed.
End RTG.

(* the end of the members moves with the (aligned) start of the struct *)
Lemma fend_shift : forall fs A, okal A -> salign align fs <= A ->
  forall vs after o d, d mod A = 0 -> fend fs vs after (o + d) = fend fs vs after o + d.
Proof.
  induction fs as [|f r IH]; intros A HA Hle vs after o d Hd; destruct vs as [|v vr]; cbn [fend]; try reflexivity.
  cbv zeta. rewrite salign_cons in Hle.
  set (a := if after then blockal (f :: r) else falign align f).
  assert (Hao : okal a) by (unfold a; destruct after; [apply blockal_ok|apply falign_ok]).
  assert (HaA : a <= A) by (unfold a; destruct after; [pose proof (blockal_le (f :: r)); rewrite salign_cons in *; lia|lia]).
  assert (Hda : d mod a = 0) by (apply (mod_down _ A); assumption).
  rewrite (pad_shift' a d o Hao Hda).
  assert (Hdf : d mod falign align f = 0) by (apply (mod_down _ A); [apply falign_ok|assumption|lia|assumption]).
  replace (o + d + pad a o) with (o + pad a o + d) by lia.
  rewrite (lay_body_shift f (layout_shift (snd f)) v (o + pad a o) d Hdf).
  replace (o + pad a o + d + segslen (lay_body layout f v (o + pad a o))) with (o + pad a o + segslen (lay_body layout f v (o + pad a o)) + d) by lia.
  apply (IH A HA ltac:(lia)). exact Hd.
Qed.

Lemma tail_last_nth tcT : forall fs vs l w, fs <> [] -> length fs = length vs ->
  last fs (FPlain, TByte) = l -> last vs VNone = w -> tail_last tcT fs vs = true ->
  fst l = FPlain -> stiffness (snd l) = Unlimited -> tcT (snd l) w = true.
Proof.
  induction fs as [|f r IH]; intros vs l w Hne Hlen Hl Hw Ht Ek Es; [congruence|].
  destruct vs as [|v vr]; [discriminate Hlen|]. cbn [length] in Hlen.
  destruct r as [|g r'].
  - destruct vr; [|discriminate Hlen]. cbn [last] in Hl, Hw. subst l w. cbn [tail_last] in Ht. rewrite Ek in Ht.
    rewrite Es in Ht. cbn [stiff_eqb] in Ht. exact Ht.
  - destruct vr as [|w' wr]; [discriminate Hlen|].
    apply (IH (w' :: wr) l w); try assumption; try discriminate; try lia.
Qed.

(* ---- C02 for messages whose greedy tail ends aligned ---- *)
Theorem py_dec_roundtrip_unl t : rtU t.
Proof.
  induction t as [k| |vals|fs IH|arms IH] using ty_ind'; intros Hl Hc Hu e fuel v data pre terminal Hfuel Hd Hw Hg Htc Ha;
    try discriminate.
  pose proof Hl as Hl0. apply wt_struct in Hw. destruct Hw as [vs [-> [H2 Hcnt]]].
  apply legal_struct in Hl. destruct Hl as [Hne Hok].
  cbn [layout align within_guard] in *. cbn [py_dec]. rewrite py_salign_eq.
  assert (Hlf : legal_fields legal [] fs = true) by (cbn [legal] in Hl0; destruct fs; [congruence|exact Hl0]).
  assert (Hlenv : length fs = length vs) by (clear -H2; induction H2; cbn [length]; congruence).
  cbn [tail_clean] in Htc. rewrite Hu in Htc. cbn [stiff_eqb] in Htc. apply andb_prop in Htc. destruct Htc as [Hpz Htl].
  pose proof (salign_ok fs) as Hsa.
  (* only the last member is unlimited, and what it needs holds *)
  assert (Huo : forall sfx pre_fs vsfx i, fs = pre_fs ++ sfx -> i = length pre_fs -> legal_fields legal pre_fs sfx = true ->
            Forall (fun f => rtU (snd f)) sfx -> length sfx = length vsfx ->
            (sfx <> [] -> tail_last tail_clean sfx vsfx = true) ->
            unl_ok fs i sfx vsfx).
  { induction sfx as [|f r IHr]; intros pre_fs vsfx i E Ei Hls HU Hlen Htl'; [exact I|].
    destruct vsfx as [|w wr]; [discriminate Hlen|]. cbn [length] in Hlen.
    destruct r as [|g r'].
    - destruct wr; [|discriminate Hlen]. cbn [unl_ok]. intros Eu. split.
      + intros Ek. split; [apply (Forall_inv HU)|].
        specialize (Htl' ltac:(discriminate)). cbn [tail_last] in Htl'. rewrite Ek in Htl'.
        unfold fstiff in Eu. rewrite Ek in Eu. rewrite Eu in Htl'. exact Htl'.
      + destruct (is_sizer fs i) eqn:Es; [|reflexivity]. exfalso.
        destruct (legal_sizer [] fs Hlf i Es) as [ts [Hn Hi]]. cbn [app] in Hn.
        rewrite E, Ei, nth_error_app2, Nat.sub_diag in Hn by lia. cbn [nth_error] in Hn. injection Hn as Hn. subst f.
        unfold fstiff in Eu. cbn [fst snd] in Eu. destruct ts; try discriminate.
    - destruct wr as [|w' wr']; [discriminate Hlen|]. cbn [unl_ok]. split.
      + eapply legal_unl_last; [exact Hls|discriminate].
      + cbn [legal_fields] in Hls. apply andb_prop in Hls. destruct Hls as [_ Hlr].
        apply (IHr (pre_fs ++ [f]) (w' :: wr') (S i)); try assumption.
        * rewrite E, <- app_assoc. reflexivity.
        * rewrite app_length. cbn [length]. lia.
        * apply (Forall_inv_tail HU).
        * lia.
        * intros _. specialize (Htl' ltac:(discriminate)). cbn [tail_last] in Htl'. exact Htl'. }
  specialize (Huo fs [] vs 0%nat eq_refl eq_refl Hlf IH Hlenv (fun _ => Htl)).
  assert (Hz : has_unl fs = true -> @nil Z = [] /\ pad (salign align fs) (fend fs vs false (len pre)) = 0).
  { intros _. split; [reflexivity|]. replace (len pre) with (0 + len pre) by lia.
    rewrite (fend_shift fs (salign align fs) Hsa (Z.le_refl _) vs false 0 (len pre) Ha).
    apply Z.eqb_eq in Hpz. rewrite (pad_shift' (salign align fs) (len pre) (fend fs vs false 0) Hsa Ha). exact Hpz. }
  pose proof (fields_rt_g e fuel data Hfuel (salign align fs) fs vs Hsa fs vs H2
                ltac:(apply Forall_forall; intros f _; apply py_dec_roundtrip) Hok (Z.le_refl _) Hg [] false pre [] Huo Hz eq_refl) as HF.
  cbn [length app] in HF. rewrite HF; try assumption.
  - cbn [bind fst snd app length].
    destruct (fields_len (salign align fs) fs Hsa ltac:(apply Forall_forall; intros; apply layout_lengths) Hok vs H2 false (len pre)) as [S1 _].
    assert (Ec : (terminal && (len pre + segslen (lay_fields layout (salign align fs) fs vs false (len pre)) <? len data)) = false).
    { rewrite Hd, len_app, len_render by assumption. destruct terminal; cbn [andb]; lia. }
    rewrite Ec. rewrite (derive_counts_id fs vs Hcnt 0%nat vs eq_refl). do 2 f_equal. lia.
  - intros j f v Hf Hv s Hs. cbn [length Nat.add].
    destruct (counts_ok_nth vs fs vs j f v s Hcnt Hf Hv Hs) as [xs [Hn Hx]].
    exists xs. repeat split; auto. pose proof (legal_sizer_lt [] fs j f s Hlf Hf Hs) as Hlt. cbn [length] in Hlt. lia.
  - intros j f v Hf Hv Ek Es. cbn [length Nat.add] in Es.
    destruct (sizer_field fs vs j f v Hlf H2 Hcnt Hf Hv Es) as [k [n [Ef [Ev [Hr _]]]]].
    exists k, n. repeat split; auto.
    + unfold in_range in Hr. subst f. cbn [fst snd] in *.
      destruct (legal_sizer [] fs Hlf j Es) as [ts [Hn Hi]]. cbn [app] in Hn. rewrite Hf in Hn. injection Hn as <-.
      cbn [int_scalar] in Hi. rewrite Hi in Hr. unfold sk_min in Hr. destruct (sk_signed k); [|lia].
      unfold is_sizer in Es. apply existsb_exists in Es. destruct Es as [g [Hin Hb]].
      apply In_nth_error in Hin. destruct Hin as [jj Hjj].
      assert (Hvj : exists w, nth_error vs jj = Some w).
      { clear -H2 Hjj. revert jj Hjj. induction H2 as [|a b r br Hab Hr IHr]; intros [|jj] H; cbn in H; try discriminate; cbn; eauto. }
      destruct Hvj as [w Hw].
      destruct (counts_ok_nth vs fs vs jj g w j Hcnt Hjj Hw (bound_to_sizer j g Hb)) as [xs [Hn Hx]].
      rewrite Hv, Ev in Hn. injection Hn as ->. pose proof (len_nonneg xs). lia.
    + unfold is_sizer in Es. apply existsb_exists in Es. destruct Es as [g [Hin Hb]].
      apply In_nth_error in Hin. destruct Hin as [jj Hjj].
      assert (Hvj : exists w, nth_error vs jj = Some w).
      { clear -H2 Hjj. revert jj Hjj. induction H2 as [|a b r br Hab Hr IHr]; intros [|jj] H; cbn in H; try discriminate; cbn; eauto. }
      destruct Hvj as [w Hw].
      destruct (counts_ok_nth vs fs vs jj g w j Hcnt Hjj Hw (bound_to_sizer j g Hb)) as [xs [Hn Hx]].
      rewrite Hv, Ev in Hn. injection Hn as ->.
      pose proof (guard_nth fs vs jj g w Hg Hjj Hw) as Hgg. subst w. unfold guard_field in Hgg.
      pose proof (bound_to_sizer j g Hb) as Hsz. destruct (fst g); cbn [sizer_of] in Hsz; try discriminate;
        apply andb_prop in Hgg; destruct Hgg as [Hgg _]; lia.
  - rewrite app_nil_r. exact Hd.
  - discriminate.
Qed.

(* message.decode on a fresh message, greedy tail ending aligned *)
Corollary py_decode_roundtrip_unl e fs v :
  legal (TStruct fs) = true -> stiffness (TStruct fs) = Unlimited ->
  wt (TStruct fs) v = true -> within_guard (TStruct fs) v = true -> tail_clean (TStruct fs) v = true ->
  py_decode e (TStruct fs) (wire e (TStruct fs) v) = Ok (v, len (wire e (TStruct fs) v)).
Proof.
  intros Hl Hu Hw Hg Ht. unfold py_decode.
  pose proof (py_dec_roundtrip_unl (TStruct fs) Hl eq_refl Hu e (S (length (wire e (TStruct fs) v))) v
                (wire e (TStruct fs) v) [] true ltac:(unfold len; lia)) as H.
  change (len (@nil Z)) with 0 in H. cbn [app] in H.
  rewrite H; try assumption; try reflexivity.
  destruct (layout_lengths (TStruct fs) v Hl Hw) as [L1 _]. unfold wire. rewrite len_render by assumption. reflexivity.
Qed.
