(* proofs/PyEncodeFacts.v — C01: the Python encoder model emits exactly the canonical wire
   format, for every legal schema and every well-typed value, in both byte orders. *)
From Coq Require Import ZArith List Bool Lia ZifyBool.
From Prophy Require Import Bytes Schema Layout Wire Src PyStatics PyEncode
  Arith SpecAlign Views SpecLen SrcFacts PyStaticsFacts.
Import ListNotations.
Local Open Scope Z_scope.
Ltac Zify.zify_post_hook ::= Z.to_euclidean_division_equations.

Lemma bind_ok {A B} (a : A) (f : A -> res B) : bind (Ok a) f = f a.
Proof. reflexivity. Qed.

(* ---- scalars ---- *)
Lemma py_pack_ok e k z : in_range k z = true -> py_pack e k z = Ok (enc_int e (sk_size k) z).
Proof.
  unfold py_pack, in_range. cbn zeta. rewrite !(py_fmt_size_spec k), (py_fmt_signed_spec k).
  unfold sk_min, sk_max. intros H.
  destruct k; cbn [sk_signed sk_is_int sk_size] in *;
    match goal with |- (if ?c then _ else _) = _ => assert (Hc : c = true) by lia; rewrite Hc; reflexivity end.
Qed.

Lemma py_pack_u32 e z : 0 <= z < 2 ^ 32 -> py_pack e U32 z = Ok (enc_int e 4 z).
Proof. intros H. apply (py_pack_ok e U32 z). unfold in_range, sk_min, sk_max. cbn. lia. Qed.

Lemma enc_int_4_0 e : enc_int e 4 0 = zeros 4.
Proof. destruct e; reflexivity. Qed.

Lemma enc_int_1 e z : 0 <= z < 256 -> enc_int e 1 z = [z].
Proof.
  intros H. destruct e; unfold enc_int, be; change (Z.to_nat 1) with 1%nat; cbn [le rev app];
    rewrite Z.mod_small by lia; reflexivity.
Qed.

(* ---- bytes fields ---- *)
Lemma bytes_enc e xs o : forallb (wt TByte) xs = true ->
  exists bs, py_bytes_of xs = Ok bs /\ render e (lay_elems layout TByte xs o) = bs /\ len bs = len xs.
Proof.
  revert o. induction xs as [|x xr IH]; intros o H.
  - exists []. repeat split; reflexivity.
  - cbn [forallb] in H. apply andb_prop in H. destruct H as [Hx Hr].
    destruct x; try discriminate. cbn [wt] in Hx.
    destruct (IH (o + 1) Hr) as [bs [E1 [E2 E3]]]. exists (z :: bs).
    cbn [py_bytes_of]. rewrite Hx, E1. split; [reflexivity|]. rewrite lay_elems_cons.
    cbn [layout app segslen fold_right seglen]. rewrite render_cons. cbn [render_seg].
    replace (o + (1 + 0)) with (o + 1) by lia. rewrite E2, !len_cons, E3. split; [|reflexivity].
    unfold is_byte in Hx. rewrite enc_int_1 by lia. reflexivity.
Qed.

(* ---- the induction hypothesis for a type ---- *)
Definition encP (t : ty) : Prop :=
  forall e v, not_byte t = true -> legal t = true -> wt t v = true -> py_enc e t v = Ok (wire e t v).

Lemma enc_at t : encP t -> forall e v o, not_byte t = true -> legal t = true -> wt t v = true -> o mod align t = 0 ->
  py_enc e t v = Ok (render e (layout t v o)).
Proof. intros H e v o Hb Hl Hw Ho. rewrite (layout_at_aligned t v o Ho). apply H; assumption. Qed.

Lemma join_enc t : encP t -> not_byte t = true -> legal t = true -> forall e xs, Forall (fun x => wt t x = true) xs ->
  forall o, o mod align t = 0 ->
  py_join (py_enc e) t xs = Ok (render e (lay_elems layout t xs o)).
Proof.
  intros HP Hb Hl e xs Hxs. induction Hxs as [|x xr Hx Hr IH]; intros o Ho.
  - reflexivity.
  - rewrite lay_elems_cons, render_app.
    change (py_join (py_enc e) t (x :: xr)) with
      (bind (py_enc e t x) (fun b => bind (py_join (py_enc e) t xr) (fun r => Ok (b ++ r)))).
    rewrite (enc_at t HP e x o Hb Hl Hx Ho), bind_ok.
    destruct (layout_lengths_at t x o Hl Hx Ho) as [L1 [L2 _]].
    rewrite (IH (o + segslen (layout t x o))) by (apply add_mod_keep; [apply align_ok|assumption..]).
    reflexivity.
Qed.

(* ---- counters ---- *)
Definition wtf (f : field) (v : value) : Prop := wt_field wt f v = true.

Lemma bound_lens_all all i n : nth_error all i = Some (VInt n) ->
  forall fs vs, Forall2 wtf fs vs -> counts_ok all fs vs = true ->
  Forall (fun m => m = n) (py_bound_lens i fs vs).
Proof.
  intros Hi fs vs H2. induction H2 as [|f v r vr Hfv Hr IH]; intros Hc; cbn [py_bound_lens]; [constructor|].
  cbn [counts_ok] in Hc. apply andb_prop in Hc. destruct Hc as [Hc1 Hc2].
  apply Forall_app. split; [|apply IH; exact Hc2].
  unfold bound_to. destruct (sizer_of (fst f)) as [s|]; [|constructor].
  destruct (Nat.eqb s i) eqn:E; [|constructor]. apply Nat.eqb_eq in E. subst s. rewrite Hi in Hc1.
  destruct v; try discriminate. constructor; [lia|constructor].
Qed.

Lemma bound_lens_nonempty i fs vs : Forall2 wtf fs vs -> existsb (bound_to i) fs = true ->
  py_bound_lens i fs vs <> [].
Proof.
  intros H2. induction H2 as [|f v r vr Hfv Hr IH]; cbn [existsb py_bound_lens]; [discriminate|].
  destruct (bound_to i f); [destruct v; discriminate|]. cbn [orb app]. exact IH.
Qed.

Lemma evaluate_size_ok fs vs i n : Forall2 wtf fs vs -> counts_ok vs fs vs = true ->
  is_sizer fs i = true -> nth_error vs i = Some (VInt n) -> py_evaluate_size i fs vs = Ok n.
Proof.
  intros H2 Hc Hs Hi. unfold py_evaluate_size.
  pose proof (bound_lens_all vs i n Hi fs vs H2 Hc) as Hall.
  pose proof (bound_lens_nonempty i fs vs H2 Hs) as Hne.
  destruct (py_bound_lens i fs vs) as [|m r]; [congruence|].
  inversion Hall as [|? ? Hm Hr]; subst.
  assert (E : forallb (Z.eqb n) r = true).
  { apply forallb_forall. intros x Hx. rewrite Forall_forall in Hr. rewrite (Hr x Hx). apply Z.eqb_refl. }
  rewrite E. reflexivity.
Qed.

Lemma legal_sizer pre fs : legal_fields legal pre fs = true -> forall i, existsb (bound_to i) fs = true ->
  exists ts, nth_error (pre ++ fs) i = Some (FPlain, ts) /\ int_scalar ts = true.
Proof.
  revert pre. induction fs as [|f r IH]; intros pre Hl i He; [discriminate|].
  cbn [legal_fields] in Hl. apply andb_prop in Hl. destruct Hl as [Hf Hr].
  cbn [existsb] in He. destruct (bound_to i f) eqn:Eb.
  - unfold bound_to in Eb. unfold legal_field in Hf. apply andb_prop in Hf. destruct Hf as [_ Hf].
    assert (Hn : exists ts, nth_error pre i = Some (FPlain, ts) /\ int_scalar ts = true).
    { destruct (fst f); cbn [sizer_of] in Eb; try discriminate; apply Nat.eqb_eq in Eb; subst s.
      - apply andb_prop in Hf. destruct Hf as [_ Hf]. destruct (nth_error pre i) as [[k ts]|]; [|discriminate].
        destruct k; try discriminate. eauto.
      - apply andb_prop in Hf. destruct Hf as [_ Hf]. destruct (nth_error pre i) as [[k ts]|]; [|discriminate].
        destruct k; try discriminate. eauto. }
    destruct Hn as [ts [Hn Hi]]. exists ts. split; [|exact Hi].
    rewrite nth_error_app1; [exact Hn|]. apply nth_error_Some. congruence.
  - cbn [orb] in He. destruct (IH (pre ++ [f]) Hr i He) as [ts [Hn Hi]]. exists ts. split; [|exact Hi].
    rewrite <- app_assoc in Hn. exact Hn.
Qed.

(* the counter member [i] of a legal struct with a well-typed value *)
Lemma sizer_field fs vs i f v : legal_fields legal [] fs = true -> Forall2 wtf fs vs ->
  counts_ok vs fs vs = true -> nth_error fs i = Some f -> nth_error vs i = Some v ->
  is_sizer fs i = true ->
  exists k n, f = (FPlain, TScalar k) /\ v = VInt n /\ in_range k n = true /\
              py_evaluate_size i fs vs = Ok n.
Proof.
  intros Hl H2 Hc Hf Hv Hs. destruct (legal_sizer [] fs Hl i Hs) as [ts [Hn Hi]].
  cbn [app] in Hn. rewrite Hf in Hn. injection Hn as ->.
  destruct ts; try discriminate. cbn [int_scalar] in Hi.
  assert (Hw : wtf (FPlain, TScalar k) v).
  { clear -H2 Hf Hv. revert i Hf Hv. induction H2 as [|g w r wr Hgw Hr IH]; intros [|j] Hf Hv; cbn in Hf, Hv; try discriminate.
    - injection Hf as <-. injection Hv as <-. exact Hgw.
    - eapply IH; eassumption. }
  unfold wtf, wt_field in Hw. cbn [fst snd] in Hw. destruct v; try discriminate. cbn [wt] in Hw.
  exists k, z. repeat split; try assumption. apply evaluate_size_ok; assumption.
Qed.

(* ---- one member ---- *)
Lemma ljust_zeros b n : ljust b n = b ++ zeros (n - len b).
Proof. reflexivity. Qed.

Lemma render_nil e : render e [] = []. Proof. reflexivity. Qed.
Lemma render_one e s : render e [s] = render_seg e s.
Proof. unfold render. cbn [map concat]. apply app_nil_r. Qed.

Lemma field_enc e all_fs all_vs i f v o :
  encP (snd f) -> fok f -> wtf f v -> o mod falign align f = 0 ->
  (fst f = FPlain -> is_sizer all_fs i = true ->
     exists k n, f = (FPlain, TScalar k) /\ v = VInt n /\ in_range k n = true /\
                 py_evaluate_size i all_fs all_vs = Ok n) ->
  py_enc_field e (py_enc e) all_fs all_vs i f v = Ok (render e (lay_body layout f v o)).
Proof.
  intros HP Hok Hw Ho Hsz. pose proof Hok as [Hl Hk].
  assert (Ho' : o mod align (snd f) = 0).
  { apply (mod_down _ (falign align f)); [apply align_ok|apply falign_ok|apply align_le_falign|exact Ho]. }
  unfold py_enc_field, lay_body. unfold wtf, wt_field in Hw. destruct (fst f) eqn:Ek.
  - (* plain *)
    destruct (is_sizer all_fs i) eqn:Es.
    + destruct (Hsz eq_refl eq_refl) as [k [n [-> [-> [Hr He]]]]]. cbn [snd].
      rewrite He, bind_ok, (py_pack_ok e k n Hr). cbn [layout]. rewrite render_one. reflexivity.
    + apply enc_at; assumption.
  - (* optional *)
    destruct Hk as [Hnb Hfx].
    assert (Efa : falign align f = Z.max 4 (align (snd f))) by (unfold falign; rewrite Ek; reflexivity).
    destruct v; try discriminate.
    + rewrite py_fsize_eq; [|apply py_sizeof_eq|assumption|unfold fstiff; rewrite Ek; reflexivity].
      unfold fsize. rewrite Ek. f_equal.
      rewrite !render_cons, render_nil, app_nil_r. cbn [render_seg]. rewrite enc_int_4_0.
      pose proof (size_nonneg _ Hl).
      rewrite <- !zeros_add by lia. f_equal. lia.
    + rewrite (py_pack_u32 e 1) by lia. rewrite bind_ok.
      assert (Hov : (o + falign align f) mod align (snd f) = 0).
      { apply add_mod_keep; [apply align_ok|assumption|]. rewrite Efa, Z.max_comm. apply max_mod; [apply align_ok|apply okal_4]. }
      rewrite (enc_at _ HP e v (o + falign align f) Hnb Hl Hw Hov), bind_ok.
      rewrite py_opt_alignment_spec, py_align_eq, <- Efa, ljust_zeros, len_enc_int by lia.
      rewrite !render_cons. cbn [render_seg]. rewrite <- app_assoc. reflexivity.
  - (* fixed array *)
    destruct v; try discriminate. apply andb_prop in Hw. destruct Hw as [Hlen Hall].
    destruct (snd f) eqn:Et.
    1,3,4,5: assert (Hnb : not_byte (snd f) = true) by (rewrite Et; reflexivity); rewrite <- Et in *; apply join_enc; [assumption|assumption|assumption|apply forallb_Forall; assumption|assumption].
    destruct (bytes_enc e vs o Hall) as [bs [E1 [E2 E3]]]. rewrite E1, bind_ok, E2.
    rewrite ljust_exact by lia. reflexivity.
  - (* dynamic array *)
    destruct v; try discriminate.
    assert (Z0 : py_ftype_size py_sizeof f = 0).
    { unfold py_ftype_size. rewrite Ek. destruct (snd f); rewrite ?py_array_size_spec; lia. }
    rewrite Z0. destruct (snd f) eqn:Et.
    1,3,4,5: assert (Hnb : not_byte (snd f) = true) by (rewrite Et; reflexivity); rewrite <- Et in *; rewrite (join_enc _ HP Hnb Hl e vs (forallb_Forall _ _ Hw) o Ho'), bind_ok;
      rewrite ljust_zeros, len_zeros_neg, app_nil_r by (pose proof (len_nonneg (render e (lay_elems layout (snd f) vs o))); lia); reflexivity.
    destruct (bytes_enc e vs o Hw) as [bs [E1 [E2 E3]]]. rewrite E1, bind_ok, E2.
    rewrite ljust_zeros, len_zeros_neg, app_nil_r by (pose proof (len_nonneg bs); lia). reflexivity.
  - (* limited array *)
    destruct Hk as [Hn Hfx]. destruct v; try discriminate. apply andb_prop in Hw. destruct Hw as [Hlen Hall].
    destruct (elems_len _ (layout_lengths (snd f)) Hl vs (forallb_Forall _ _ Hall) o Ho') as [L1 [L2 L3]].
    specialize (L3 Hfx).
    assert (Zs : py_ftype_size py_sizeof f = n * size (snd f)).
    { unfold py_ftype_size. rewrite Ek. rewrite (py_sizeof_eq _ Hl Hfx).
      destruct (snd f); rewrite ?py_array_size_spec; cbn [size]; lia. }
    rewrite Zs. rewrite render_app, render_one. cbn [render_seg].
    destruct (snd f) eqn:Et.
    1,3,4,5: assert (Hnb : not_byte (snd f) = true) by (rewrite Et; reflexivity); rewrite <- Et in *; rewrite (join_enc _ HP Hnb Hl e vs (forallb_Forall _ _ Hall) o Ho'), bind_ok;
      rewrite ljust_zeros, len_render by assumption; reflexivity.
    destruct (bytes_enc e vs o Hall) as [bs [E1 [E2 E3]]]. rewrite E1, bind_ok.
    rewrite ljust_zeros. rewrite <- E2 at 1. rewrite <- E2 at 1. rewrite len_render by assumption. reflexivity.
  - (* greedy array *)
    destruct v; try discriminate.
    assert (Z0 : py_ftype_size py_sizeof f = 0).
    { unfold py_ftype_size. rewrite Ek. destruct (snd f); rewrite ?py_array_size_spec; lia. }
    rewrite Z0. destruct (snd f) eqn:Et.
    1,3,4,5: assert (Hnb : not_byte (snd f) = true) by (rewrite Et; reflexivity); rewrite <- Et in *; rewrite (join_enc _ HP Hnb Hl e vs (forallb_Forall _ _ Hw) o Ho'), bind_ok;
      rewrite ljust_zeros, len_zeros_neg, app_nil_r by (pose proof (len_nonneg (render e (lay_elems layout (snd f) vs o))); lia); reflexivity.
    destruct (bytes_enc e vs o Hw) as [bs [E1 [E2 E3]]]. rewrite E1, bind_ok, E2.
    rewrite ljust_zeros, len_zeros_neg, app_nil_r by (pose proof (len_nonneg bs); lia). reflexivity.
Qed.

(* ---- the member list ---- *)
Lemma render_pad_cons e p l : render e (SPad p :: l) = zeros p ++ render e l.
Proof. reflexivity. Qed.

(* after a dynamic member the python codec pads the data to the block alignment right away,
   the specification pads in front of the next member: same bytes *)
Lemma lay_fields_repad e sa r vr o : okal sa -> salign align r <= sa ->
  render e (lay_fields layout sa r vr true o)
  = zeros (pad (blockal r) o) ++ render e (lay_fields layout sa r vr true (o + pad (blockal r) o)).
Proof.
  intros Hsa Hle. pose proof (blockal_ok r) as Hb. pose proof (pad_nonneg (blockal r) o Hb) as Hp.
  pose proof (blockal_le r) as Hbl.
  assert (Hdeg : zeros (pad sa o) = zeros (pad (blockal r) o) ++ zeros (pad sa (o + pad (blockal r) o))).
  { rewrite <- zeros_add; [|lia|apply pad_nonneg; assumption]. f_equal. apply pad_split; try assumption; lia. }
  destruct r as [|f r']; [|destruct vr as [|v vr']].
  - cbn [lay_fields]. rewrite !render_one. cbn [render_seg]. exact Hdeg.
  - cbn [lay_fields]. rewrite !render_one. cbn [render_seg]. exact Hdeg.
  - cbn [lay_fields]. rewrite !render_pad_cons.
    rewrite (pad_zero (blockal (f :: r')) (o + pad (blockal (f :: r')) o) Hb (pad_aligned _ _ Hb)).
    rewrite zeros_0, Z.add_0_r. cbn [app]. reflexivity.
Qed.

Lemma py_enc_fields_cons e encT sa afs avs f r p pr i v vr data :
  py_enc_fields e encT sa afs avs (f :: r) (p :: pr) i (v :: vr) data =
  bind (py_enc_field e encT afs avs i f v) (fun b =>
    let d2 := (data ++ zeros (py_dist (len data) (py_falign py_align f))) ++ b in
    let d3 := match p with Some a => d2 ++ zeros (py_dist (len d2) a) | None => d2 end in
    py_enc_fields e encT sa afs avs r pr (S i) vr d3).
Proof. reflexivity. Qed.

Definition SZ (afs : list field) (avs : list value) (i : nat) (fs : list field) (vs : list value) : Prop :=
  forall j f v, nth_error fs j = Some f -> nth_error vs j = Some v ->
    fst f = FPlain -> is_sizer afs (i + j) = true ->
    exists k n, f = (FPlain, TScalar k) /\ v = VInt n /\ in_range k n = true /\
                py_evaluate_size (i + j) afs avs = Ok n.

Lemma fields_enc e sa afs avs : okal sa ->
  forall fs vs, Forall2 wtf fs vs -> Forall (fun f => encP (snd f)) fs -> Forall fok fs ->
  salign align fs <= sa ->
  forall i after data, SZ afs avs i fs vs ->
  (after = true -> len data mod blockal fs = 0) ->
  py_enc_fields e (py_enc e) sa afs avs fs (fst (py_scan fs)) i vs data
  = Ok (data ++ render e (lay_fields layout sa fs vs after (len data))).
Proof.
  intros Hsa fs vs H2. induction H2 as [|f v r vr Hfv Hr IHr]; intros HIH Hok Hle i after data Hsz Haft;
    change (fkind * ty)%type with field in *.
  - cbn [py_scan fst py_enc_fields lay_fields]. rewrite render_one. cbn [render_seg].
    rewrite py_dist_pad by assumption. reflexivity.
  - inversion HIH as [|? ? HPf HIHr]; subst. inversion Hok as [|? ? Hokf Hokr]; subst.
    rewrite salign_cons in Hle.
    pose proof (falign_ok f) as Hfa. pose proof (blockal_ok (f :: r)) as Hba. pose proof (blockal_ok r) as Hbr.
    pose proof (falign_le_blockal f r) as Hfb. pose proof (blockal_le r) as Hblr.
    pose proof (len_nonneg data) as Hld.
    rewrite py_scan_cons.
    set (p := pad (falign align f) (len data)).
    assert (Hp : pad (if after then blockal (f :: r) else falign align f) (len data) = p).
    { destruct after; [|reflexivity]. specialize (Haft eq_refl).
      rewrite (pad_zero _ _ Hba Haft). unfold p. symmetry. apply pad_zero; [assumption|].
      apply (mod_down _ (blockal (f :: r))); assumption. }
    pose proof (pad_nonneg _ (len data) Hfa) as Hpr. fold p in Hpr.
    assert (Hof : (len data + p) mod falign align f = 0) by (apply pad_aligned; assumption).
    assert (Hbody : py_enc_field e (py_enc e) afs avs i f v = Ok (render e (lay_body layout f v (len data + p)))).
    { apply field_enc; try assumption. intros Ek Es.
      pose proof (Hsz 0%nat f v eq_refl eq_refl Ek) as H0. rewrite Nat.add_0_r in H0. apply H0. exact Es. }
    assert (Hsz' : SZ afs avs (S i) r vr).
    { intros j g w Hg Hw Ek Es. replace (S i + j)%nat with (i + S j)%nat in * by lia.
      apply (Hsz (S j) g w); assumption. }
    destruct (body_len f v (len data + p) (layout_lengths (snd f)) Hokf Hfv Hof) as [B1 _].
    set (B := render e (lay_body layout f v (len data + p))) in *.
    assert (HlB : len B = segslen (lay_body layout f v (len data + p))) by (apply len_render; assumption).
    pose proof (len_nonneg B) as HlB0.
    cbn [lay_fields]. rewrite Hp, render_pad_cons, render_app. fold B. rewrite <- HlB.
    destruct (ends_block f) eqn:Ed; cbn [fst]; rewrite py_enc_fields_cons, Hbody, bind_ok; cbn zeta;
      rewrite py_falign_eq', py_dist_pad by assumption; fold p.
    + set (d2 := (data ++ zeros p) ++ B).
      assert (Hl2 : len d2 = len data + p + len B) by (unfold d2; rewrite !len_app, len_zeros by lia; lia).
      rewrite py_dist_pad by assumption.
      pose proof (pad_nonneg _ (len d2) Hbr) as Hq.
      rewrite (IHr HIHr Hokr ltac:(lia) (S i) true (d2 ++ zeros (pad (blockal r) (len d2))) Hsz').
      2:{ intros _. rewrite len_app, len_zeros by lia. apply pad_aligned; assumption. }
      rewrite (lay_fields_repad e sa r vr (len data + p + len B)) by (try assumption; lia).
      rewrite len_app, len_zeros by lia. rewrite <- Hl2.
      unfold d2. rewrite <- !app_assoc. reflexivity.
    + rewrite (IHr HIHr Hokr ltac:(lia) (S i) false ((data ++ zeros p) ++ B) Hsz') by discriminate.
      rewrite !len_app, len_zeros by lia. rewrite <- !app_assoc. reflexivity.
Qed.

(* ---- unions ---- *)
Lemma arm_enc e ua usz arms i x a : nth_error arms i = Some a ->
  py_enc_arm e (py_enc e) ua usz arms i x =
  bind (py_pack e U32 (fst a)) (fun d => bind (py_enc e (snd a) x) (fun body => Ok (ljust (ljust d ua ++ body) usz))).
Proof.
  revert i. induction arms as [|b r IH]; intros [|j] H; cbn in H; try discriminate.
  - injection H as ->. reflexivity.
  - cbn [py_enc_arm]. apply IH; exact H.
Qed.

(* ---- C01, model level ---- *)
Theorem py_enc_canonical t : encP t.
Proof.
  induction t as [k| |vals|fs IH|arms IH] using ty_ind'; intros e v Hnb Hl Hw.
  - destruct v; try discriminate. cbn [py_enc wt] in *. rewrite (py_pack_ok e k z Hw).
    unfold wire. cbn [layout]. rewrite render_one. reflexivity.
  - discriminate.
  - destruct v; try discriminate. cbn [py_enc wt legal] in *.
    assert (Hr : 0 <= z < 2 ^ 32).
    { destruct vals as [|v0 vr]; [discriminate|]. rewrite forallb_forall in Hl.
      apply existsb_exists in Hw. destruct Hw as [y [Hy Ey]]. specialize (Hl y Hy).
      unfold u32_ok in Hl. apply Z.eqb_eq in Ey. subst y. lia. }
    rewrite py_enum_base_spec, (py_pack_u32 e z Hr). unfold wire. cbn [layout]. rewrite render_one. reflexivity.
  - pose proof Hl as Hl0. apply wt_struct in Hw. destruct Hw as [vs [-> [H2 Hc]]].
    apply legal_struct in Hl. destruct Hl as [Hne Hok].
    cbn [py_enc]. unfold wire. cbn [layout]. rewrite py_salign_eq.
    rewrite (fields_enc e (salign align fs) fs vs (salign_ok fs) fs vs H2 IH Hok (Z.le_refl _) 0%nat false []).
    + reflexivity.
    + intros j f v Hf Hv Ek Es. cbn [Nat.add] in *.
      cbn [legal] in Hl0. destruct fs as [|f0 r0]; [congruence|].
      eapply sizer_field; eassumption.
    + discriminate.
  - apply wt_union in Hw. destruct Hw as [i [x [-> Hw]]]. apply wt_arms_nth in Hw. destruct Hw as [a [Hn Hwa]].
    pose proof Hl as Hl0. apply legal_union in Hl. destruct Hl as [_ [Hok _]].
    pose proof (nth_error_In _ _ Hn) as Hin.
    rewrite Forall_forall in Hok, IH. destruct (Hok a Hin) as [Hd [Hla [Hnba Hfa]]].
    cbn [py_enc]. rewrite (arm_enc e _ _ arms i x a Hn), (py_pack_u32 e (fst a) Hd), bind_ok.
    rewrite (IH a Hin e x Hnba Hla Hwa), bind_ok.
    rewrite py_align_eq, (py_sizeof_eq (TUnion arms) Hl0 eq_refl).
    unfold wire at 2. cbn [layout align]. rewrite (lay_arm_nth arms i x _ a Hn).
    pose proof (ualign_ok arms) as Hua. pose proof (ualign_ge4 arms) as H4.
    assert (Hoa : (0 + ualign align arms) mod align (snd a) = 0).
    { cbn. apply (mod_down _ (ualign align arms)); [apply align_ok|assumption|apply arm_le_ualign; assumption|apply self_mod; assumption]. }
    rewrite (layout_at_aligned (snd a) x _ Hoa).
    destruct (layout_lengths (snd a) x Hla Hwa) as [A1 _].
    rewrite !render_cons, render_app, render_one. cbn [render_seg]. fold (wire e (snd a) x).
    rewrite !ljust_zeros, len_enc_int by lia.
    assert (Hlw : len (wire e (snd a) x) = segslen (layout (snd a) x 0)) by (apply len_render; assumption).
    rewrite !len_app, len_enc_int, len_zeros by lia. rewrite Hlw.
    rewrite <- !app_assoc. do 4 f_equal. f_equal. lia.
Qed.

Corollary py_encode_length_fixed e t v : not_byte t = true -> legal t = true -> wt t v = true -> is_fixed t = true ->
  exists b, py_enc e t v = Ok b /\ len b = py_sizeof t.
Proof.
  intros Hnb Hl Hw Hf. exists (wire e t v). split; [apply py_enc_canonical; assumption|].
  rewrite (py_sizeof_eq t Hl Hf). apply wire_length_fixed; assumption.
Qed.
