(* proofs/PcRawFacts.v — C08 (model level): the offsets that prophyc's member sizes and paddings
   give every member of the generated raw C++ struct are the offsets the wire format assigns. *)
From Coq Require Import ZArith List Bool Lia ZifyBool.
From Prophy Require Import Bytes Schema Layout Wire Src PcModel Arith SpecAlign Views SrcFacts PcFacts.
Import ListNotations.
Local Open Scope Z_scope.

Lemma pc_member_flags sT f : fok f -> fstiff stiffness f <> Unlimited ->
  let m := pc_member sT pc_align pc_kind f in
  pm_part_ends m = ends_block f /\
  (ends_block f = false -> pm_member_dynamic m = false) /\
  pm_optional m = match fst f with FOpt => true | _ => false end.
Proof.
  intros [Hl Hk] Hu. cbn zeta. unfold pm_part_ends, pm_member_dynamic, pc_member, ends_block, fstiff in *.
  pose proof (pc_kind_eq (snd f) Hl) as Hkd.
  destruct (fst f); cbn [pm_kind pm_isdyn pm_greedy pm_optional]; rewrite Hkd; unfold K_DYNAMIC, K_FIXED.
  - destruct (stiffness (snd f)); cbn; repeat split; try reflexivity; try discriminate. congruence.
  - destruct Hk as [_ Hfx]. rewrite (fixed_code _ Hfx). repeat split; reflexivity.
  - destruct Hk as [_ Hfx]. rewrite (fixed_code _ Hfx). repeat split; reflexivity.
  - rewrite orb_true_r. repeat split; try reflexivity. discriminate.
  - destruct Hk as [_ Hfx]. rewrite (fixed_code _ Hfx). repeat split; reflexivity.
  - congruence.
Qed.

Lemma blockal_le8 fs : blockal fs <= 8.
Proof. pose proof (blockal_ok fs) as H. unfold okal in H. lia. Qed.

Lemma walk_cons prev m r bs :
  fst (fst (pc_walk prev (m :: r) bs)) =
  (if pm_member_dynamic prev && (pm_align prev <? pm_align m) then - pm_align m
   else pc_member_padding (pm_align m) bs)
  :: fst (fst (pc_walk m r (bs + (pm_size m + pc_member_padding (pm_align m) bs)))).
Proof. cbn [pc_walk]. destruct (pc_walk m r _) as [[ps l] fin]. reflexivity. Qed.

Lemma pc_raw_offsets_cons2 m m2 r ps part o :
  pc_raw_offsets (m :: m2 :: r) ps part o =
  (part, o, if pm_optional m then o + pm_align m else -1) ::
  (if pm_part_ends m then pc_raw_offsets (m2 :: r) (tl ps) (part + 1) 0
   else pc_raw_offsets (m2 :: r) (tl ps) part (o + pm_size m + Z.max 0 (hd 0 ps))).
Proof. reflexivity. Qed.

Lemma member_offsets_cons f r part o :
  member_offsets (f :: r) part o =
  (part, o + pad (falign align f) o,
   match fst f with FOpt => o + pad (falign align f) o + falign align f | _ => -1 end) ::
  (if ends_block f then member_offsets r (part + 1) 0
   else member_offsets r part (o + pad (falign align f) o + fsize size f)).
Proof. cbn [member_offsets]. destruct (ends_block f); reflexivity. Qed.

Lemma raw_walk : forall fs pre, legal_fields legal pre fs = true ->
  Forall (fun f => pc_align (snd f) = align (snd f) /\ pc_size (snd f) = size (snd f)) fs ->
  fs <> [] ->
  forall prev (after : bool) bs part o B x,
  (if after then o = 0 else okal B /\ blockal fs <= B /\ (bs - o) mod B = 0) ->
  pc_raw_offsets (pcms fs) (tl (fst (fst (pc_walk prev (pc_partial (pcms fs) after) bs))) ++ [x]) part
     (o + pad (falign align (hd (FPlain, TByte) fs)) o)
  = member_offsets fs part o.
Proof.
  induction fs as [|f r IH]; intros pre Hl Ha Hne prev after bs part o B x Hinv; [congruence|].
  pose proof (legal_fields_fok _ _ Hl) as Hok. inversion Hok as [|? ? Hokf Hokr]; subst.
  inversion Ha as [|? ? [Haf Hsf] Har]; subst.
  assert (Ha' : Forall (fun f => pc_align (snd f) = align (snd f)) (f :: r)).
  { apply Forall_forall. intros y Hy. rewrite Forall_forall in Ha. apply (Ha y Hy). }
  cbn [hd]. cbn [pcms map pc_partial]. fold (pcms r).
  set (m := pc_member pc_size pc_align pc_kind f).
  set (m' := if after then pm_set_align m (Z.max (pm_align m) (pc_part_max (m :: pcms r))) else m).
  assert (Eal : pm_align m' = if after then blockal (f :: r) else falign align f).
  { unfold m'. destruct after; [|apply pc_member_facts; assumption].
    cbn [pm_set_align pm_align]. change (m :: pcms r) with (pcms (f :: r)).
    rewrite (pc_part_max_blockal pre (f :: r) Hl Ha'). unfold m. rewrite (pc_member_facts _ f Hokf Haf).
    pose proof (falign_le_blockal f r). lia. }
  assert (Esz : pm_size m' = fsize size f).
  { unfold m'. destruct after; cbn [pm_set_align pm_size]; apply pc_member_size; assumption. }
  assert (Esz0 : pm_size m = fsize size f) by (apply pc_member_size; assumption).
  assert (Eal0 : pm_align m = falign align f) by (apply pc_member_facts; assumption).
  pose proof (falign_ok f) as Hfo. pose proof (blockal_ok (f :: r)) as Hbo. pose proof (falign_le_blockal f r) as Hfb.
  rewrite walk_cons. cbn [tl].
  set (o1 := o + pad (falign align f) o).
  cbn [legal_fields] in Hl. apply andb_prop in Hl. destruct Hl as [Hlf Hlr].
  destruct r as [|g r'].
  - cbn [pcms map pc_raw_offsets member_offsets]. fold m.
    assert (Eopt : pm_optional m = match fst f with FOpt => true | _ => false end).
    { unfold m, pc_member. destruct (fst f); reflexivity. }
    rewrite Eopt, Eal0. destruct (ends_block f); destruct (fst f); reflexivity.
  - assert (Hu : fstiff stiffness f <> Unlimited).
    { eapply legal_unl_last with (pre := pre) (r := g :: r'); [|discriminate].
      cbn [legal_fields]. rewrite Hlf. exact Hlr. }
    destruct (pc_member_flags pc_size f Hokf Hu) as [Epe [Edyn Eopt]]. fold m in Epe, Edyn, Eopt.
    assert (Esp : pm_splits m = ends_block f) by (apply pc_member_splits; [assumption|left; assumption]).
    assert (Edyn' : ends_block f = false -> pm_member_dynamic m' = false).
    { intros He. unfold m'. destruct after; [|apply Edyn; exact He].
      specialize (Edyn He). unfold pm_member_dynamic in *. cbn [pm_set_align pm_isdyn pm_greedy pm_kind]. exact Edyn. }
    rewrite Esp.
    set (mg0 := pc_member pc_size pc_align pc_kind g).
    change (pcms (g :: r')) with (mg0 :: pcms r').
    rewrite pc_raw_offsets_cons2, member_offsets_cons. fold o1.
    change (mg0 :: pcms r') with (pcms (g :: r')).
    rewrite Eopt, Eal0, Epe.
    f_equal; [destruct (fst f); reflexivity|].
    set (bs1 := bs + (pm_size m' + pc_member_padding (pm_align m') bs)).
    pose proof (falign_ok g) as Hgo. pose proof (blockal_ok (g :: r')) as Hgbo. pose proof (falign_le_blockal g r') as Hgb.
    assert (Ealg : pm_align mg0 = falign align g).
    { inversion Har as [|? ? [Hag _] _]; subst. inversion Hokr as [|? ? Hokg _]; subst. apply pc_member_facts; assumption. }
    change (mg0 :: pcms r') with (pcms (g :: r')).
    destruct (ends_block f) eqn:Eeb.
    + (* a new part starts *)
      specialize (IH (pre ++ [f]) Hlr Har ltac:(discriminate) m' true bs1 (part + 1) 0 1 x eq_refl).
      cbn [hd] in IH. rewrite (pad_zero (falign align g) 0 Hgo) in IH by (apply Z.mod_0_l; apply okal_pos in Hgo; lia).
      rewrite Z.add_0_r in IH. rewrite <- IH. clear IH.
      cbn [pcms map pc_partial]. fold (pcms r'). fold mg0. rewrite !walk_cons. cbn [app tl]. reflexivity.
    + (* the same part goes on *)
      specialize (Edyn' eq_refl).
      set (B' := if after then blockal (f :: g :: r') else B).
      assert (HB' : okal B' /\ blockal (f :: g :: r') <= B' /\ (bs1 - (o1 + fsize size f)) mod B' = 0).
      { unfold B', bs1, o1. rewrite Esz, Eal. destruct after.
        - subst o. rewrite pc_member_padding_spec by exact Hbo.
          rewrite (pad_zero (falign align f) 0 Hfo) by (apply Z.mod_0_l; apply okal_pos in Hfo; lia).
          split; [exact Hbo|]. split; [lia|].
          replace (bs + (fsize size f + pad (blockal (f :: g :: r')) bs) - (0 + 0 + fsize size f))
            with (bs + pad (blockal (f :: g :: r')) bs) by lia.
          apply pad_aligned. exact Hbo.
        - destruct Hinv as [HBo [HBle HBm]]. rewrite pc_member_padding_spec by exact Hfo.
          split; [exact HBo|]. split; [exact HBle|].
          assert (Hpad : pad (falign align f) bs = pad (falign align f) o).
          { replace bs with (o + (bs - o)) by lia. apply pad_shift'; [exact Hfo|].
            apply (okal_divides (falign align f) B); try assumption. lia. }
          rewrite Hpad.
          replace (bs + (fsize size f + pad (falign align f) o) - (o + pad (falign align f) o + fsize size f)) with (bs - o) by lia.
          exact HBm. }
      destruct HB' as [HBo [HBle HBm]].
      assert (Hgle : blockal (g :: r') <= B').
      { cbn [blockal] in HBle. rewrite Eeb in HBle. cbn [blockal]. lia. }
      assert (Hpadg : pad (falign align g) bs1 = pad (falign align g) (o1 + fsize size f)).
      { replace bs1 with ((o1 + fsize size f) + (bs1 - (o1 + fsize size f))) by lia. apply pad_shift'; [exact Hgo|].
        apply (okal_divides (falign align g) B'); try assumption. lia. }
      specialize (IH (pre ++ [f]) Hlr Har ltac:(discriminate) m' false bs1 part (o1 + fsize size f) B' x
                     (conj HBo (conj Hgle HBm))).
      cbn [hd] in IH. rewrite <- IH. clear IH.
      cbn [pcms map pc_partial]. fold (pcms r'). fold mg0. rewrite !walk_cons. cbn [app tl hd].
      rewrite Edyn'. cbn [andb]. rewrite Ealg, pc_member_padding_spec by exact Hgo.
      rewrite Hpadg, Esz0.
      pose proof (pad_nonneg (falign align g) (o1 + fsize size f) Hgo) as Hnn.
      rewrite Z.max_r by lia. reflexivity.
Qed.

Theorem pc_raw_layout_eq fs : legal (TStruct fs) = true -> pc_raw_layout fs = member_offsets fs 0 0.
Proof.
  intros Hl. pose proof Hl as Hl0. apply legal_struct in Hl. destruct Hl as [Hne Hok].
  assert (Hboth : Forall (fun f => pc_align (snd f) = align (snd f) /\ pc_size (snd f) = size (snd f)) fs).
  { rewrite Forall_forall in *. intros f Hf. destruct (Hok f Hf) as [Hlf _]. apply (pc_layout_eq (snd f) Hlf). }
  unfold pc_raw_layout, pc_paddings, pc_struct_layout. fold (pcms fs).
  destruct fs as [|f0 r0]; [congruence|].
  cbn [legal] in Hl0.
  destruct (pc_partial (pcms (f0 :: r0)) false) as [|m0 ms] eqn:Ep; [discriminate Ep|].
  rewrite <- Ep. cbn zeta.
  destruct (pc_walk m0 (pc_partial (pcms (f0 :: r0)) false) 0) as [[ps lastm] bs] eqn:Ew. cbn [snd].
  assert (Eps : ps = fst (fst (pc_walk m0 (pc_partial (pcms (f0 :: r0)) false) 0))) by (rewrite Ew; reflexivity).
  rewrite Eps.
  pose proof (raw_walk (f0 :: r0) [] Hl0 Hboth ltac:(discriminate) m0 false 0 0 0 8) as H.
  match goal with |- context [tl _ ++ [?pl]] => specialize (H pl) end.
  cbn [hd] in H. rewrite (pad_zero (falign align f0) 0 (falign_ok f0)) in H by (apply Z.mod_0_l; pose proof (falign_ok f0) as Hx; apply okal_pos in Hx; lia).
  apply H. split; [unfold okal; lia|]. split; [apply blockal_le8|reflexivity].
Qed.
