(* proofs/TailFacts.v — C02: the recursive predicate [tail_clean] used by the round-trip proof for messages with
   a greedy tail is the spec's [greedy_tail_aligned] (Wire.v: the last [unl_depth] segments of the layout, which are
   the final paddings of the structs on the way down to the greedy array, are all empty). *)
From Coq Require Import ZArith List Bool Lia ZifyBool.
From Prophy Require Import Bytes Schema Layout Wire SwapSpec Arith SpecAlign Views SpecLen PyRoundtripGreedy.
Import ListNotations.
Local Open Scope Z_scope.

(* ---- only the last member of a legal struct can be unlimited ---- *)
Lemma legal_unl_last' pre f r : legal_fields legal pre (f :: r) = true -> r <> [] -> fstiff stiffness f <> Unlimited.
Proof.
  intros Hl Hne. cbn [legal_fields] in Hl. apply andb_prop in Hl. destruct Hl as [Hlf _].
  destruct r as [|g r']; [congruence|]. unfold legal_field in Hlf. apply andb_prop in Hlf. destruct Hlf as [_ H].
  unfold fstiff. destruct (fst f); try discriminate.
  apply andb_prop in H. destruct H as [_ H]. cbn [orb] in H. apply negb_true_iff in H. apply stiff_eqb_neq in H. exact H.
Qed.

Lemma removelast_not_unl fs : forall pre, legal_fields legal pre fs = true ->
  Forall (fun f => fstiff stiffness f <> Unlimited) (removelast fs).
Proof.
  induction fs as [|f r IH]; intros pre Hl; [constructor|].
  destruct r as [|g r']; [constructor|].
  change (removelast (f :: g :: r')) with (f :: removelast (g :: r')). constructor.
  - apply (legal_unl_last' pre f (g :: r') Hl). discriminate.
  - cbn [legal_fields] in Hl. apply andb_prop in Hl. destruct Hl as [_ Hr]. apply (IH (pre ++ [f])). exact Hr.
Qed.

Lemma unl_is_last fs : Forall (fun f => fstiff stiffness f <> Unlimited) (removelast fs) ->
  stiffness (TStruct fs) = Unlimited -> unl_field (last fs (FPlain, TByte)) = true.
Proof.
  cbn [stiffness]. induction fs as [|f r IH]; intros Hnu Hu; [discriminate Hu|].
  unfold stiff_fields in Hu. cbn [fold_right] in Hu. fold (stiff_fields stiffness r) in Hu.
  destruct r as [|g r'].
  - cbn [last]. unfold unl_field. apply stiff_eqb_eq. cbn [stiff_fields fold_right] in Hu.
    destruct (fstiff stiffness f); try discriminate Hu; reflexivity.
  - change (last (f :: g :: r') (FPlain, TByte)) with (last (g :: r') (FPlain, TByte)).
    change (removelast (f :: g :: r')) with (f :: removelast (g :: r')) in Hnu. inversion Hnu as [|? ? Hf Hr]; subst.
    apply IH; [exact Hr|].
    destruct (fstiff stiffness f); destruct (stiff_fields stiffness (g :: r')); try discriminate Hu; try reflexivity; congruence.
Qed.

(* ---- the end of a member list's layout ---- *)
Lemma lay_fields_last sa fs : forall vs after o, length vs = length fs -> fs <> [] ->
  exists prefix, lay_fields layout sa fs vs after o
    = prefix ++ lay_body layout (last fs (FPlain, TByte)) (last vs VNone) (last_member_offset fs vs after o)
             ++ [SPad (pad sa (fend fs vs after o))].
Proof.
  induction fs as [|f r IH]; intros vs after o Hlen Hne; [congruence|].
  destruct vs as [|v vr]; [discriminate Hlen|]. cbn [length] in Hlen.
  cbn [lay_fields last_member_offset fend].
  set (a := if after then blockal (f :: r) else falign align f). set (p := pad a o).
  set (body := lay_body layout f v (o + p)).
  destruct r as [|g r'].
  - destruct vr; [|discriminate Hlen]. exists [SPad p]. cbn [last lay_fields fend app]. reflexivity.
  - destruct vr as [|w wr]; [discriminate Hlen|].
    destruct (IH (w :: wr) (ends_block f) (o + p + segslen body) ltac:(cbn [length] in *; lia) ltac:(discriminate)) as [pf Hpf].
    exists (SPad p :: body ++ pf). rewrite Hpf.
    change (last (f :: g :: r') (FPlain, TByte)) with (last (g :: r') (FPlain, TByte)).
    change (last (v :: w :: wr) VNone) with (last (w :: wr) VNone).
    cbn [app]. rewrite <- !app_assoc. reflexivity.
Qed.

Lemma lmo_aligned fs : forall vs after o, length vs = length fs -> fs <> [] ->
  last_member_offset fs vs after o mod falign align (last fs (FPlain, TByte)) = 0.
Proof.
  induction fs as [|f r IH]; intros vs after o Hlen Hne; [congruence|].
  destruct vs as [|v vr]; [discriminate Hlen|]. cbn [length] in Hlen. cbn [last_member_offset].
  destruct r as [|g r'].
  - cbn [last]. pose proof (falign_ok f) as Hf. pose proof (falign_le_blockal f []) as Hb.
    destruct after.
    + apply (mod_down _ (blockal [f])); [exact Hf|apply blockal_ok|exact Hb|]. apply pad_aligned. apply blockal_ok.
    + apply pad_aligned. exact Hf.
  - destruct vr as [|w wr]; [discriminate Hlen|].
    change (last (f :: g :: r') (FPlain, TByte)) with (last (g :: r') (FPlain, TByte)).
    apply IH; [cbn [length] in *; lia|discriminate].
Qed.

Lemma tail_last_char tcT fs : forall vs, length vs = length fs -> fs <> [] ->
  tail_last tcT fs vs =
  match fst (last fs (FPlain, TByte)) with
  | FPlain => if stiff_eqb (stiffness (snd (last fs (FPlain, TByte)))) Unlimited
              then tcT (snd (last fs (FPlain, TByte))) (last vs VNone) else true
  | _ => true
  end.
Proof.
  induction fs as [|f r IH]; intros vs Hlen Hne; [congruence|].
  destruct vs as [|v vr]; [discriminate Hlen|]. cbn [length] in Hlen.
  destruct r as [|g r'].
  - destruct vr; [|discriminate Hlen]. reflexivity.
  - destruct vr as [|w wr]; [discriminate Hlen|].
    change (last (f :: g :: r') (FPlain, TByte)) with (last (g :: r') (FPlain, TByte)).
    change (last (v :: w :: wr) VNone) with (last (w :: wr) VNone).
    rewrite <- (IH (w :: wr)) by (try discriminate; cbn [length] in *; lia). reflexivity.
Qed.

Lemma unl_fields_last dT fs : fs <> [] ->
  unl_fields dT fs =
  match fst (last fs (FPlain, TByte)) with
  | FGreedy => 1%nat
  | FPlain => if stiff_eqb (stiffness (snd (last fs (FPlain, TByte)))) Unlimited then S (dT (snd (last fs (FPlain, TByte)))) else O
  | _ => O
  end.
Proof.
  induction fs as [|f r IH]; intros Hne; [congruence|]. destruct r as [|g r']; [reflexivity|].
  change (last (f :: g :: r') (FPlain, TByte)) with (last (g :: r') (FPlain, TByte)).
  rewrite <- IH by discriminate. reflexivity.
Qed.

Lemma Forall2_last {A B} (P : A -> B -> Prop) l1 l2 d1 d2 : Forall2 P l1 l2 -> l1 <> [] -> P (last l1 d1) (last l2 d2).
Proof.
  intros H. induction H as [|x y r s Hxy Hr IH]; intros Hne; [congruence|].
  destruct r as [|x' r']; [inversion Hr; subst; exact Hxy|].
  destruct s as [|y' s']; [inversion Hr|].
  change (last (x :: x' :: r') d1) with (last (x' :: r') d1). change (last (y :: y' :: s') d2) with (last (y' :: s') d2).
  apply IH. discriminate.
Qed.

Lemma last_In' {A} (l : list A) d : l <> [] -> In (last l d) l.
Proof.
  induction l as [|x r IH]; intros Hne; [congruence|]. destruct r as [|y r']; [left; reflexivity|].
  right. change (last (x :: y :: r') d) with (last (y :: r') d). apply IH. discriminate.
Qed.

Lemma segslen_firstn_nonneg n l : segs_ok l -> 0 <= segslen (firstn n l).
Proof.
  revert l. induction n as [|n IH]; intros l H; [cbn; lia|]. destruct l as [|s r]; [cbn; lia|].
  inversion H as [|? ? Hs Hr]; subst. cbn [firstn]. rewrite segslen_cons. specialize (IH r Hr). unfold seg_ok in Hs. lia.
Qed.

(* ---- the two predicates agree ---- *)
Definition TE (t : ty) : Prop :=
  forall v, legal t = true -> wt t v = true -> stiffness t = Unlimited ->
    (unl_depth t <= length (layout t v 0))%nat /\
    (segslen (firstn (unl_depth t) (rev (layout t v 0))) = 0 <-> tail_clean t v = true).

Theorem tail_equiv : forall t, TE t.
Proof.
  induction t as [k| |vals|fs IH|arms IH] using ty_ind'; intros v Hl Hw Hu; try discriminate Hu.
  pose proof Hl as Hl0. pose proof Hw as Hw0. apply wt_struct in Hw. destruct Hw as [vs [-> [H2 _]]].
  apply legal_struct in Hl. destruct Hl as [Hne Hok].
  assert (Hlf : legal_fields legal [] fs = true) by (cbn [legal] in Hl0; destruct fs; [congruence|exact Hl0]).
  assert (Hlen : length vs = length fs) by (clear -H2; induction H2; cbn [length]; congruence).
  pose proof (unl_is_last fs (removelast_not_unl fs [] Hlf) Hu) as Hlast.
  change (fkind * ty)%type with field in *. remember (last fs (FPlain, TByte)) as l eqn:El. set (w := last vs VNone).
  pose proof (Forall2_last _ fs vs (FPlain, TByte) VNone H2 Hne) as Hwl. rewrite <- ?El in Hwl. fold w in Hwl. cbn beta in Hwl.
  assert (Hinl : In l fs) by (rewrite El; apply last_In'; exact Hne).
  rewrite Forall_forall in Hok, IH. pose proof (Hok l Hinl) as [Hll Hkl]. pose proof (IH l Hinl) as IHl.
  pose proof (salign_ok fs) as Hsa.
  destruct (lay_fields_last (salign align fs) fs vs false 0 Hlen Hne) as [prefix Hlay].
  rewrite <- ?El in Hlay. fold w in Hlay.
  set (pd := pad (salign align fs) (fend fs vs false 0)) in *.
  pose proof (pad_nonneg (salign align fs) (fend fs vs false 0) Hsa) as Hpd. fold pd in Hpd.
  set (lmo := last_member_offset fs vs false 0) in *.
  pose proof (lmo_aligned fs vs false 0 Hlen Hne) as Hal. rewrite <- ?El in Hal. fold lmo in Hal.
  cbn [layout unl_depth tail_clean]. rewrite Hu. cbn [stiff_eqb]. fold pd.
  rewrite (unl_fields_last unl_depth fs Hne), (tail_last_char tail_clean fs vs Hlen Hne). rewrite <- ?El. fold w.
  rewrite Hlay. rewrite !rev_app_distr. cbn [rev app]. rewrite !app_length. cbn [length].
  change (fkind * ty)%type with field in *. rewrite <- ?El. fold w.
  unfold unl_field, fstiff in Hlast.
  destruct (fst l) eqn:Ek; try (apply stiff_eqb_eq in Hlast; discriminate Hlast).
  - (* a plain unlimited struct *)
    rewrite Hlast. apply stiff_eqb_eq in Hlast.
    unfold wt_field in Hwl. rewrite Ek in Hwl.
    assert (Ebody : lay_body layout l w lmo = layout (snd l) w 0).
    { unfold lay_body. rewrite Ek. apply layout_at_aligned. unfold falign in Hal. rewrite Ek in Hal. exact Hal. }
    rewrite Ebody. destruct (IHl w Hll Hwl Hlast) as [Hd Heq].
    split; [lia|].
    cbn [firstn]. rewrite segslen_cons. cbn [seglen].
    rewrite firstn_app. rewrite rev_length.
    replace (unl_depth (snd l) - length (layout (snd l) w 0))%nat with O by lia. cbn [firstn]. rewrite app_nil_r.
    destruct (layout_lengths (snd l) w Hll Hwl) as [L1 _].
    pose proof (segslen_firstn_nonneg (unl_depth (snd l)) (rev (layout (snd l) w 0)) ltac:(apply Forall_rev; exact L1)) as Hnn.
    split.
    + intros Hs. assert (pd = 0) by lia. assert (Hs' : segslen (firstn (unl_depth (snd l)) (rev (layout (snd l) w 0))) = 0) by lia.
      apply Heq in Hs'. rewrite Hs'. apply andb_true_intro. split; [lia|reflexivity].
    + intros Ht. apply andb_prop in Ht. destruct Ht as [Hp Hc]. apply Heq in Hc. lia.
  - (* a greedy array *)
    split; [lia|]. cbn [firstn]. rewrite segslen_cons. cbn [seglen segslen fold_right]. rewrite andb_true_r. lia.
Qed.

Corollary greedy_tail_aligned_clean t v : legal t = true -> wt t v = true -> stiffness t = Unlimited ->
  greedy_tail_aligned t v = tail_clean t v.
Proof.
  intros Hl Hw Hu. destruct (tail_equiv t v Hl Hw Hu) as [_ H]. unfold greedy_tail_aligned, tail_pad.
  destruct (tail_clean t v) eqn:E.
  - apply Z.eqb_eq. apply H. reflexivity.
  - apply Z.eqb_neq. intros Hz. apply H in Hz. discriminate Hz.
Qed.
