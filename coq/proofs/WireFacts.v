(* proofs/WireFacts.v — further theorems about the specification itself:
   - every multi-byte scalar sits at an offset divisible by its width;
   - the little- and big-endian renderings of one segment list have the same length and
     differ exactly by reversing the bytes of each scalar; padding bytes are zero in both. *)
From Coq Require Import ZArith List Bool Lia ZifyBool.
From Prophy Require Import Bytes Schema Layout Wire Arith SpecAlign Views SpecLen.
Import ListNotations.
Local Open Scope Z_scope.
Ltac Zify.zify_post_hook ::= Z.to_euclidean_division_equations.

(* ---- byte order ---- *)
(* mirror: reverse the bytes inside every scalar segment, keep everything else in place *)
Definition mirror_seg (e : endian) (s : seg) : bytes :=
  match s with SInt w v => rev (enc_int e w v) | SPad n => zeros n end.
Definition mirror (e : endian) (l : list seg) : bytes := concat (map (mirror_seg e) l).

Definition flip (e : endian) : endian := match e with LE => BE | BE => LE end.

Lemma enc_int_flip e w v : enc_int (flip e) w v = rev (enc_int e w v).
Proof. destruct e; unfold enc_int, be; cbn [flip]; [reflexivity|]. rewrite rev_involutive. reflexivity. Qed.

(* rendering in the other byte order = reversing each scalar in place *)
Theorem render_mirror e l : render (flip e) l = mirror e l.
Proof.
  unfold render, mirror. f_equal. apply map_ext. intros [w v|n]; cbn [render_seg mirror_seg]; [apply enc_int_flip|reflexivity].
Qed.

Theorem render_same_length e l : len (render (flip e) l) = len (render e l).
Proof.
  induction l as [|s l IH]; [reflexivity|]. rewrite !render_cons, !len_app, IH. f_equal.
  destruct s; cbn [render_seg]; [|reflexivity]. rewrite enc_int_flip. apply len_rev.
Qed.

(* every byte rendered from a padding segment is zero, whatever the byte order *)
Lemma zeros_all_zero n : Forall (fun b => b = 0) (zeros n).
Proof. unfold zeros. apply Forall_forall. intros x Hx. apply repeat_spec in Hx. exact Hx. Qed.

Theorem padding_zero e n : Forall (fun b => b = 0) (render_seg e (SPad n)).
Proof. cbn [render_seg]. apply zeros_all_zero. Qed.

(* ---- scalar alignment ---- *)
(* positions: the list of (offset, segment) pairs of a layout that starts at offset o *)
Fixpoint place (o : Z) (l : list seg) : list (Z * seg) :=
  match l with [] => [] | s :: r => (o, s) :: place (o + seglen s) r end.

Definition seg_aligned (p : Z * seg) : Prop :=
  match snd p with SInt w _ => fst p mod w = 0 | SPad _ => True end.

Lemma place_app o a b : place o (a ++ b) = place o a ++ place (o + segslen a) b.
Proof.
  revert o. induction a as [|s a IH]; intros o; cbn [app place segslen fold_right]; [f_equal; lia|].
  rewrite IH. do 3 f_equal. unfold segslen. lia.
Qed.

Definition alP (t : ty) : Prop :=
  forall v o, legal t = true -> wt t v = true -> o mod align t = 0 ->
  Forall seg_aligned (place o (layout t v o)).

Lemma elems_aligned t : alP t -> legal t = true -> forall xs, Forall (fun x => wt t x = true) xs ->
  forall o, o mod align t = 0 -> Forall seg_aligned (place o (lay_elems layout t xs o)).
Proof.
  intros HP Hl xs Hxs. induction Hxs as [|x xr Hx Hr IH]; intros o Ho.
  - constructor.
  - rewrite lay_elems_cons, place_app. apply Forall_app. split; [apply HP; assumption|].
    apply IH. destruct (layout_lengths_at t x o Hl Hx Ho) as [_ [L2 _]].
    apply add_mod_keep; [apply align_ok|assumption..].
Qed.

Lemma body_aligned f v o : alP (snd f) -> fok f -> wt_field wt f v = true -> o mod falign align f = 0 ->
  Forall seg_aligned (place o (lay_body layout f v o)).
Proof.
  intros HP [Hl Hk] Hw Ho.
  assert (Ho' : o mod align (snd f) = 0).
  { apply (mod_down _ (falign align f)); [apply align_ok|apply falign_ok|apply align_le_falign|exact Ho]. }
  unfold lay_body, wt_field in *. destruct (fst f) eqn:Ek.
  - apply HP; assumption.
  - assert (Efa : falign align f = Z.max 4 (align (snd f))) by (unfold falign; rewrite Ek; reflexivity).
    assert (Ho4 : o mod 4 = 0).
    { apply (mod_down _ (falign align f)); [apply okal_4|apply falign_ok|lia|exact Ho]. }
    destruct v; try discriminate.
    + cbn [place]. repeat constructor; unfold seg_aligned; cbn [fst snd]; trivial.
    + cbn [place seglen]. constructor; [exact Ho4|]. constructor; [exact I|].
      replace (o + 4 + (falign align f - 4)) with (o + falign align f) by lia.
      apply HP; try assumption.
      apply add_mod_keep; [apply align_ok|assumption|]. rewrite Efa, Z.max_comm. apply max_mod; [apply align_ok|apply okal_4].
  - destruct v; try discriminate. apply andb_prop in Hw. destruct Hw as [_ Hall].
    apply elems_aligned; try assumption. apply forallb_Forall; assumption.
  - destruct v; try discriminate. apply elems_aligned; try assumption. apply forallb_Forall; assumption.
  - destruct v; try discriminate. apply andb_prop in Hw. destruct Hw as [_ Hall].
    rewrite place_app. apply Forall_app. split.
    + apply elems_aligned; try assumption. apply forallb_Forall; assumption.
    + cbn [place]. repeat constructor; try exact I.
  - destruct v; try discriminate. apply elems_aligned; try assumption. apply forallb_Forall; assumption.
Qed.

Lemma fields_aligned sa fs : okal sa -> Forall (fun f => alP (snd f)) fs -> Forall fok fs ->
  forall vs, Forall2 (fun f v => wt_field wt f v = true) fs vs ->
  forall after o, Forall seg_aligned (place o (lay_fields layout sa fs vs after o)).
Proof.
  intros Hsa HIH Hok vs H2. revert HIH Hok.
  induction H2 as [|f v r vr Hfv Hr IHr]; intros HIH Hok after o; change (fkind * ty)%type with field in *.
  - cbn [lay_fields place]. repeat constructor; try exact I.
  - inversion HIH as [|? ? HP HIHr]; subst. inversion Hok as [|? ? Hf Hokr]; subst.
    cbn [lay_fields].
    match goal with |- context [pad ?x o] => set (a := x) end.
    assert (Ha : okal a) by (unfold a; destruct after; [apply blockal_ok|apply falign_ok]).
    assert (Hfa : falign align f <= a) by (unfold a; destruct after; [apply falign_le_blockal|lia]).
    assert (Hof : (o + pad a o) mod falign align f = 0).
    { apply (mod_down _ a); [apply falign_ok|assumption|assumption|apply pad_aligned; assumption]. }
    cbn [place seglen]. constructor; [exact I|]. rewrite place_app. apply Forall_app. split.
    + apply body_aligned; assumption.
    + apply IHr; assumption.
Qed.

(* "every scalar ... at an offset divisible by its alignment" *)
Theorem scalars_aligned t : alP t.
Proof.
  induction t as [k| |vals|fs IH|arms IH] using ty_ind'; intros v o Hl Hw Ho.
  - destruct v; try discriminate. cbn [layout place align] in *. repeat constructor. exact Ho.
  - destruct v; try discriminate. cbn [layout place]. repeat constructor. apply mod_1.
  - destruct v; try discriminate. cbn [layout place align] in *. repeat constructor. exact Ho.
  - apply wt_struct in Hw. destruct Hw as [vs [-> [H2 _]]]. apply legal_struct in Hl. destruct Hl as [_ Hok].
    cbn [layout]. apply fields_aligned; try assumption. apply salign_ok.
  - apply wt_union in Hw. destruct Hw as [i [x [-> Hw]]]. apply wt_arms_nth in Hw. destruct Hw as [a [Hn Hwa]].
    apply legal_union in Hl. destruct Hl as [_ [Hok _]]. pose proof (nth_error_In _ _ Hn) as Hin.
    rewrite Forall_forall in Hok, IH. destruct (Hok a Hin) as [Hd [Hla [_ Hfa]]].
    cbn [layout align] in *. rewrite (lay_arm_nth arms i x _ a Hn).
    pose proof (ualign_ok arms) as Hua. pose proof (ualign_ge4 arms) as H4.
    cbn [place seglen]. constructor.
    { unfold seg_aligned. cbn [fst snd]. apply (mod_down _ (ualign align arms)); [apply okal_4|assumption|lia|exact Ho]. }
    constructor; [exact I|]. replace (o + 4 + (ualign align arms - 4)) with (o + ualign align arms) by lia.
    rewrite place_app. apply Forall_app. split.
    + apply (IH a Hin); try assumption.
      apply (mod_down _ (ualign align arms)); [apply align_ok|assumption|apply arm_le_ualign; assumption|].
      apply add_mod_keep; [assumption|assumption|apply self_mod; assumption].
    + cbn [place]. repeat constructor; try exact I.
Qed.
