(* proofs/SrcFacts.v — characterising lemmas for the definitions translated from /repo
   (gen/Src.v). Later proofs use only these, never the translated bodies, so a semantically
   equal rewrite of the source keeps the build green while a changed operator, constant or table
   entry breaks a lemma here. *)
From Coq Require Import ZArith List Bool Lia ZifyBool.
From Prophy Require Import Bytes Schema Src Arith.
Import ListNotations.
Local Open Scope Z_scope.
Ltac Zify.zify_post_hook ::= Z.to_euclidean_division_equations.

Lemma py_dist_pad n a : okal a -> py_dist n a = pad a n.
Proof. unfold okal, py_dist, pad; intros [->|[->|[->| ->]]]; cbn zeta; lia. Qed.

Lemma py_field_alignment_spec b oa a : py_field_alignment b oa a = if b then oa else a.
Proof. destruct b; reflexivity. Qed.

Lemma py_size_spec k : py_size k = sk_size k.
Proof. destruct k; reflexivity. Qed.
Lemma py_fmt_size_spec k : py_fmt_size k = sk_size k.
Proof. destruct k; reflexivity. Qed.
Lemma py_fmt_signed_spec k : py_fmt_signed k = sk_signed k.
Proof. destruct k; reflexivity. Qed.
Lemma py_min_spec k : sk_is_int k = true -> py_min k = sk_min k.
Proof. destruct k; intros H; try discriminate; reflexivity. Qed.
Lemma py_max_spec k : sk_is_int k = true -> py_max k = sk_max k.
Proof. destruct k; intros H; try discriminate; reflexivity. Qed.
Lemma py_num_alignment_spec s : py_num_alignment s = s.
Proof. unfold py_num_alignment; lia. Qed.
Lemma py_num_size_spec s : py_num_size s = s.
Proof. unfold py_num_size; lia. Qed.
Lemma py_num_short_spec l p s : py_num_short l p s = (l - p <? s).
Proof. unfold py_num_short. lia. Qed.
Lemma py_enum_base_spec : py_enum_base = U32.
Proof. reflexivity. Qed.

Lemma py_opt_alignment_spec a : py_opt_alignment a = Z.max 4 a.
Proof. unfold py_opt_alignment. rewrite py_num_alignment_spec, py_size_spec. cbn [sk_size]. lia. Qed.
Lemma py_opt_size_spec oa s : py_opt_size oa s = oa + s.
Proof. unfold py_opt_size; lia. Qed.

Lemma py_union_alignment_spec m : py_union_alignment m = Z.max 4 m.
Proof. unfold py_union_alignment. rewrite py_num_alignment_spec, py_size_spec. cbn [sk_size]. lia. Qed.
Lemma py_union_size_spec a m : okal a -> py_union_size a m = a + m + pad a (a + m).
Proof. intros Ha. unfold py_union_size. cbn zeta. rewrite py_dist_pad by assumption. lia. Qed.

Lemma py_array_guard_spec : py_array_guard = 65536.
Proof. reflexivity. Qed.
Lemma py_guard_exceeded_spec v : py_guard_exceeded v = (65536 <? v).
Proof. unfold py_guard_exceeded. rewrite py_array_guard_spec. lia. Qed.
Lemma py_len_negative_spec v : py_len_negative v = (v <? 0).
Proof. unfold py_len_negative. lia. Qed.

Lemma py_array_size_spec n s : py_array_size n s = n * s.
Proof. unfold py_array_size; lia. Qed.
Lemma py_array_alignment_spec a : py_array_alignment a = a.
Proof. unfold py_array_alignment; lia. Qed.

(* prophyc/model.py *)
Lemma pc_builtin_size_spec k : pc_builtin_size k = sk_size k.
Proof. destruct k; reflexivity. Qed.
Lemma pc_byte_size_spec : pc_byte_size = 1. Proof. reflexivity. Qed.
Lemma pc_disc_size_spec : pc_disc_size = 4. Proof. reflexivity. Qed.
Lemma pc_enum_size_spec : pc_enum_size = 4. Proof. reflexivity. Qed.
Lemma pc_opt_alignment_spec a : pc_opt_alignment a = Z.max 4 a.
Proof. unfold pc_opt_alignment. rewrite pc_disc_size_spec. lia. Qed.
Lemma pc_opt_size_spec s a : pc_opt_size s a = s + a.
Proof. unfold pc_opt_size; lia. Qed.
Lemma pc_array_size_spec s n : pc_array_size s n = s * n.
Proof. unfold pc_array_size. destruct (n =? 0) eqn:E; [lia|]. cbn zeta. destruct (s * n =? 0) eqn:E2; lia. Qed.
Lemma pc_member_padding_spec a s : okal a -> pc_member_padding a s = pad a s.
Proof. unfold okal, pc_member_padding, pad; intros [->|[->|[->| ->]]]; lia. Qed.
Lemma pc_final_padding_spec a s : okal a -> pc_final_padding a s = pad a s.
Proof. unfold okal, pc_final_padding, pad; intros [->|[->|[->| ->]]]; lia. Qed.
Lemma pc_union_round_spec s a : okal a -> 0 <= s -> pc_union_round s a = s + pad a s.
Proof.
  unfold okal, pc_union_round, pad; intros [->|[->|[->| ->]]] Hs;
    rewrite Z.quot_div_nonneg by lia; lia.
Qed.

(* prophy_cpp: nearest<N>(x) and align<N>(p) round up to a multiple of N (a power of two) *)
Lemma land_lnot_ones x k : 0 <= k -> Z.land x (Z.lnot (2 ^ k - 1)) = (x / 2 ^ k) * 2 ^ k.
Proof.
  intros Hk. rewrite <- Z.ldiff_land.
  replace (2 ^ k - 1) with (Z.ones k) by (rewrite Z.ones_equiv; lia).
  rewrite Z.ldiff_ones_r by lia. rewrite Z.shiftl_mul_pow2, Z.shiftr_div_pow2 by lia. reflexivity.
Qed.

Lemma cpp_nearest_spec N x : okal N -> cpp_nearest N x = x + pad N x.
Proof.
  unfold okal, cpp_nearest, pad. intros [->|[->|[->| ->]]].
  - change (1 - 1) with (2 ^ 0 - 1). rewrite land_lnot_ones by lia. lia.
  - change (2 - 1) with (2 ^ 1 - 1). rewrite land_lnot_ones by lia. lia.
  - change (4 - 1) with (2 ^ 2 - 1). rewrite land_lnot_ones by lia. lia.
  - change (8 - 1) with (2 ^ 3 - 1). rewrite land_lnot_ones by lia. lia.
Qed.

Lemma cpp_align_spec N p : okal N -> cpp_align N p = p + pad N p.
Proof.
  unfold okal, cpp_align, pad. cbn zeta. intros [->|[->|[->| ->]]].
  - change (1 - 1) with (2 ^ 0 - 1). rewrite land_lnot_ones by lia. lia.
  - change (2 - 1) with (2 ^ 1 - 1). rewrite land_lnot_ones by lia. lia.
  - change (4 - 1) with (2 ^ 2 - 1). rewrite land_lnot_ones by lia. lia.
  - change (8 - 1) with (2 ^ 3 - 1). rewrite land_lnot_ones by lia. lia.
Qed.

(* From here on the translated definitions are used through the lemmas above only. *)
Global Opaque py_dist py_field_alignment py_size py_min py_max py_fmt_size py_fmt_signed
  py_num_alignment py_num_size py_num_short py_enum_base py_opt_alignment py_opt_size
  py_union_alignment py_union_size py_array_guard py_guard_exceeded py_len_negative
  py_array_size py_array_alignment
  pc_builtin_size pc_byte_size pc_disc_size pc_enum_size pc_opt_alignment pc_opt_size
  pc_array_size pc_member_padding pc_final_padding pc_union_round cpp_nearest cpp_align.
