(* proofs/PyDecodeFacts.v — C06 (model level): decoding any byte string with the model of the
   Python decoder either returns or raises ProphyError: no other exception, no stuck state,
   and the greedy loop never runs out of the fuel [length data + 1] (termination). *)
From Coq Require Import ZArith List Bool Lia ZifyBool.
From Prophy Require Import Bytes Schema Layout Wire Src PyStatics PyEncode PyDecode
  Arith SpecAlign Views SpecLen SrcFacts PyStaticsFacts PyEncodeFacts.
Import ListNotations.
Local Open Scope Z_scope.
Ltac Zify.zify_post_hook ::= Z.to_euclidean_division_equations.

(* an acceptable outcome whose consumed length is at least [lo] *)
Definition good {A} (lo : Z) (r : res (A * Z)) : Prop :=
  match r with Ok (_, n) => lo <= n | Err ProphyError => True | Err _ => False end.

Lemma good_weaken {A} lo lo' (r : res (A * Z)) : lo' <= lo -> good lo r -> good lo' r.
Proof. unfold good. destruct r as [[a n]|[]]; intros; try assumption; lia. Qed.

Lemma py_unpack_good e k data pos : good 1 (py_unpack e k data pos).
Proof.
  unfold py_unpack. destruct (py_num_short _ _ _); [exact I|]. cbn [good].
  rewrite (py_size_spec k). pose proof (sk_size_pos k). lia.
Qed.

Lemma py_unpack_cases e k data pos :
  py_unpack e k data pos = Err ProphyError \/ exists z, py_unpack e k data pos = Ok (z, sk_size k).
Proof.
  unfold py_unpack. destruct (py_num_short _ _ _); [left; reflexivity|]. right.
  rewrite (py_size_spec k). eexists; reflexivity.
Qed.

Section Dec.
  Variable e : endian.
  Variable data : bytes.
  Variable decT : ty -> Z -> bool -> res (value * Z).

  (* what the induction hypothesis says about composite element/member types *)
  Definition decP (t : ty) : Prop :=
    legal t = true -> is_comp t = true -> forall pos terminal, 0 <= pos ->
    good (if stiff_eqb (stiffness t) Unlimited then 0 else 1) (decT t pos terminal).

  Lemma dec_scalar_good t pos : not_byte t = true -> is_comp t = false ->
    good 1 (py_dec_scalar e data t pos).
  Proof.
    intros Hb Hc. destruct t; try discriminate; cbn [py_dec_scalar].
    - destruct (py_unpack_cases e k data pos) as [-> | [z ->]]; [exact I|]. cbn [bind good fst snd].
      pose proof (sk_size_pos k). lia.
    - destruct (py_unpack_cases e py_enum_base data pos) as [-> | [z ->]]; [exact I|]. cbn [bind fst snd].
      destruct (existsb _ vals); [|exact I]. cbn [good]. rewrite py_enum_base_spec. cbn. lia.
  Qed.

  Lemma dec_base_good t pos : decP t -> legal t = true -> not_byte t = true -> 0 <= pos ->
    good (if stiff_eqb (stiffness t) Unlimited then 0 else 1) (py_dec_base e data decT t pos).
  Proof.
    intros HP Hl Hb Hp. destruct t; try discriminate; cbn [py_dec_base].
    - apply (good_weaken 1); [cbn; lia|]. apply dec_scalar_good; reflexivity.
    - apply (good_weaken 1); [cbn; lia|]. apply dec_scalar_good; reflexivity.
    - apply HP; try assumption; reflexivity.
    - apply HP; try assumption; reflexivity.
  Qed.

  (* n elements of a fixed (hence not unlimited) or dynamic element type: each consumes >= 1 *)
  Lemma dec_n_good t : decP t -> legal t = true -> not_byte t = true -> stiffness t <> Unlimited ->
    forall n pos, 0 <= pos -> good (Z.of_nat n) (py_dec_n e data decT t n pos).
  Proof.
    intros HP Hl Hb Hu. induction n as [|m IH]; intros pos Hp; cbn [py_dec_n]; [cbn; lia|].
    pose proof (dec_base_good t pos HP Hl Hb Hp) as H1.
    assert (Es : stiff_eqb (stiffness t) Unlimited = false) by (apply stiff_eqb_neq; exact Hu).
    rewrite Es in H1.
    change (py_dec_n e data decT t (S m) pos) with
      (bind (py_dec_base e data decT t pos) (fun r => bind (py_dec_n e data decT t m (pos + snd r)) (fun rs => Ok (fst r :: fst rs, snd r + snd rs)))).
    destruct (py_dec_base e data decT t pos) as [[v s]|[]]; cbn [good] in H1; try contradiction; [|exact I].
    cbn [bind snd fst]. specialize (IH (pos + s) ltac:(lia)).
    destruct (py_dec_n e data decT t m (pos + s)) as [[vs c]|[]]; cbn [good] in IH; try contradiction; [|exact I].
    cbn [bind good snd fst]. lia.
  Qed.

  (* the greedy loop terminates within the fuel and never moves backwards *)
  Lemma dec_greedy_good t pos : decP t -> legal t = true -> is_comp t = true -> stiffness t <> Unlimited ->
    0 <= pos -> forall fuel cursor, 0 <= cursor ->
    Z.of_nat fuel + (pos + cursor) > len data ->
    good cursor (py_dec_greedy data decT t pos fuel cursor).
  Proof.
    intros HP Hl Hc Hu Hp. induction fuel as [|f IH]; intros cursor Hcur Hf.
    - cbn [py_dec_greedy]. destruct (pos + cursor <? len data) eqn:E; [lia|]. cbn; lia.
    - cbn [py_dec_greedy]. destruct (pos + cursor <? len data) eqn:E; [|cbn; lia].
      pose proof (HP Hl Hc (pos + cursor) false ltac:(lia)) as H1.
      assert (Es : stiff_eqb (stiffness t) Unlimited = false) by (apply stiff_eqb_neq; exact Hu).
      rewrite Es in H1.
      destruct (decT t (pos + cursor) false) as [[v s]|[]]; cbn [good] in H1; try contradiction; [|exact I].
      cbn [bind snd fst]. specialize (IH (cursor + s) ltac:(lia) ltac:(lia)).
      destruct (py_dec_greedy data decT t pos f (cursor + s)) as [[vs c]|[]]; cbn [good] in IH; try contradiction; [|exact I].
      cbn [bind good snd fst]. lia.
  Qed.

  (* values already decoded: every counter is a non-negative integer *)
  Definition dec_inv (fs : list field) (decoded : list value) : Prop :=
    forall s, is_sizer fs s = true -> (s < length decoded)%nat ->
      exists z, nth_error decoded s = Some (VInt z) /\ 0 <= z.

  Definition flo (f : field) : Z :=
    match fst f with
    | FPlain => if stiff_eqb (stiffness (snd f)) Unlimited then 0 else 1
    | FOpt | FFixed _ => 1
    | _ => 0
    end.

  Definition good_field (fs : list field) (i : nat) (f : field) (r : res (value * Z)) : Prop :=
    match r with
    | Ok (v, n) => flo f <= n /\
        (is_sizer fs i = true -> fst f = FPlain -> exists z, v = VInt z /\ 0 <= z)
    | Err ProphyError => True
    | Err _ => False
    end.

  Lemma good_to_field fs i f (r : res (value * Z)) :
    good (flo f) r -> (is_sizer fs i = true -> fst f = FPlain -> False) -> good_field fs i f r.
  Proof.
    unfold good, good_field. destruct r as [[v n]|[]]; intros H Hs; try assumption.
    split; [exact H|]. intros A B. destruct (Hs A B).
  Qed.

  Lemma dec_field_good fuel all_fs decoded i f pos :
    decP (snd f) -> fok f -> 0 <= pos -> Z.of_nat fuel > len data ->
    dec_inv all_fs decoded ->
    (forall s, sizer_of (fst f) = Some s -> (s < length decoded)%nat /\ is_sizer all_fs s = true) ->
    (fst f = FPlain -> is_sizer all_fs i = true -> exists k, snd f = TScalar k) ->
    good_field all_fs i f (py_dec_field e data decT fuel all_fs decoded i f pos).
  Proof.
    intros HP Hok Hp Hfuel Hinv Hsz Hsc. pose proof Hok as [Hl Hk].
    assert (Hhint : forall s, sizer_of (fst f) = Some s ->
              exists z, nth_error decoded s = Some (VInt z) /\ 0 <= z).
    { intros s Hs. destruct (Hsz s Hs) as [H1 H2]. apply Hinv; assumption. }
    unfold py_dec_field. cbn zeta. destruct (fst f) eqn:Ek.
    - (* plain *)
      destruct (is_sizer all_fs i) eqn:Es.
      + destruct (Hsc eq_refl eq_refl) as [k Ek2]. rewrite Ek2.
        destruct (py_unpack_cases e k data pos) as [-> | [z ->]]; [exact I|]. cbn [bind fst snd].
        rewrite py_guard_exceeded_spec, py_len_negative_spec.
        destruct (65536 <? z) eqn:E1; [exact I|]. destruct (z <? 0) eqn:E2; [exact I|].
        cbn [good_field]. split.
        * unfold flo. rewrite Ek, Ek2. cbn [stiffness stiff_eqb]. pose proof (sk_size_pos k). lia.
        * intros _ _. exists z. split; [reflexivity|lia].
      + apply good_to_field; [|intros A _; rewrite Es in A; discriminate]. unfold flo. rewrite Ek.
        apply dec_base_good; assumption.
    - (* optional *)
      destruct Hk as [Hnb Hfx]. apply good_to_field; [|intros _ B; rewrite Ek in B; discriminate]. unfold flo. rewrite Ek.
      destruct (py_unpack_cases e U32 data pos) as [-> | [z ->]]; [exact I|]. cbn [bind fst snd].
      rewrite py_opt_alignment_spec, py_align_eq. pose proof (align_ok (snd f)) as Ha. apply okal_pos in Ha.
      destruct (z =? 0).
      + cbn [good]. rewrite (py_sizeof_eq _ Hl Hfx). pose proof (size_nonneg _ Hl). lia.
      + pose proof (dec_base_good (snd f) (pos + Z.max 4 (align (snd f))) HP Hl Hnb ltac:(lia)) as H1.
        apply (good_weaken _ 0) in H1; [|destruct (stiff_eqb _ _); lia].
        destruct (py_dec_base e data decT (snd f) (pos + Z.max 4 (align (snd f)))) as [[v s]|[]]; cbn [good] in H1; try contradiction; [|exact I].
        cbn [bind good fst snd]. lia.
    - (* fixed array *)
      destruct Hk as [Hn Hfx]. apply good_to_field; [|intros _ B; rewrite Ek in B; discriminate]. unfold flo. rewrite Ek.
      assert (Hu : stiffness (snd f) <> Unlimited).
      { unfold is_fixed in Hfx. apply stiff_eqb_eq in Hfx. rewrite Hfx. discriminate. }
      destruct (snd f) eqn:Et.
      1,3,4,5: rewrite <- Et in *;
        assert (Hnb : not_byte (snd f) = true) by (rewrite Et; reflexivity);
        pose proof (dec_n_good (snd f) HP Hl Hnb Hu (Z.to_nat n) pos Hp) as H1;
        destruct (py_dec_n e data decT (snd f) (Z.to_nat n) pos) as [[vs c]|[]]; cbn [good] in H1; try contradiction; try exact I;
        cbn [bind good fst snd]; lia.
      destruct (len data - pos <? n); [exact I|]. cbn [good]. lia.
    - (* dynamic array *)
      apply good_to_field; [|intros _ B; rewrite Ek in B; discriminate]. unfold flo. rewrite Ek.
      destruct (Hhint s eq_refl) as [h [-> Hh]]. cbn [bind].
      destruct (snd f) eqn:Et.
      1,3,4,5: rewrite <- Et in *;
        assert (Hnb : not_byte (snd f) = true) by (rewrite Et; reflexivity);
        destruct (0 >? len data - pos); try exact I;
        pose proof (dec_n_good (snd f) HP Hl Hnb Hk (Z.to_nat h) pos Hp) as H1;
        destruct (py_dec_n e data decT (snd f) (Z.to_nat h) pos) as [[vs c]|[]]; cbn [good] in H1; try contradiction; try exact I;
        cbn [bind good fst snd]; lia.
      destruct (len data - pos <? 0); [exact I|]. destruct (len data - pos <? h); [exact I|]. cbn [good]. lia.
    - (* limited array *)
      destruct Hk as [Hn Hfx]. apply good_to_field; [|intros _ B; rewrite Ek in B; discriminate]. unfold flo. rewrite Ek.
      assert (Hu : stiffness (snd f) <> Unlimited).
      { unfold is_fixed in Hfx. apply stiff_eqb_eq in Hfx. rewrite Hfx. discriminate. }
      destruct (Hhint s eq_refl) as [h [-> Hh]]. cbn [bind].
      destruct (snd f) eqn:Et.
      1,3,4,5: rewrite <- Et in *;
        assert (Hnb : not_byte (snd f) = true) by (rewrite Et; reflexivity);
        destruct (_ >? len data - pos); try exact I;
        destruct (is_comp (snd f) && (n <? h)); try exact I;
        pose proof (dec_n_good (snd f) HP Hl Hnb Hu (Z.to_nat h) pos Hp) as H1;
        destruct (py_dec_n e data decT (snd f) (Z.to_nat h) pos) as [[vs c]|[]]; cbn [good] in H1; try contradiction; try exact I;
        cbn [bind fst snd]; destruct (n <? h); try exact I; cbn [good]; lia.
      destruct (len data - pos <? n); [exact I|]. destruct (n <? len _); [exact I|]. cbn [good]. lia.
    - (* greedy array *)
      apply good_to_field; [|intros _ B; rewrite Ek in B; discriminate]. unfold flo. rewrite Ek.
      destruct (snd f) eqn:Et.
      + (* scalars *)
        rewrite <- Et in *. assert (Hnb : not_byte (snd f) = true) by (rewrite Et; reflexivity).
        destruct (0 >? len data - pos); [exact I|].
        match goal with |- context [py_dec_n e data decT (snd f) ?c pos] =>
          pose proof (dec_n_good (snd f) HP Hl Hnb Hk c pos Hp) as H1;
          destruct (py_dec_n e data decT (snd f) c pos) as [[vs cc]|[]] end;
          cbn [good] in H1; try contradiction; try exact I. cbn [bind good fst snd]. lia.
      + destruct (len data - pos <? 0) eqn:E; [exact I|]. cbn [good]. lia.
      + rewrite <- Et in *. assert (Hnb : not_byte (snd f) = true) by (rewrite Et; reflexivity).
        destruct (0 >? len data - pos); [exact I|].
        match goal with |- context [py_dec_n e data decT (snd f) ?c pos] =>
          pose proof (dec_n_good (snd f) HP Hl Hnb Hk c pos Hp) as H1;
          destruct (py_dec_n e data decT (snd f) c pos) as [[vs cc]|[]] end;
          cbn [good] in H1; try contradiction; try exact I. cbn [bind good fst snd]. lia.
      + rewrite <- Et in *. assert (Hc : is_comp (snd f) = true) by (rewrite Et; reflexivity).
        destruct (0 >? len data - pos); [exact I|].
        pose proof (dec_greedy_good (snd f) pos HP Hl Hc Hk Hp fuel 0 ltac:(lia) ltac:(lia)) as H1.
        destruct (py_dec_greedy data decT (snd f) pos fuel 0) as [[vs c]|[]]; cbn [good] in H1; try contradiction; try exact I.
        cbn [bind good fst snd]. lia.
      + rewrite <- Et in *. assert (Hc : is_comp (snd f) = true) by (rewrite Et; reflexivity).
        destruct (0 >? len data - pos); [exact I|].
        pose proof (dec_greedy_good (snd f) pos HP Hl Hc Hk Hp fuel 0 ltac:(lia) ltac:(lia)) as H1.
        destruct (py_dec_greedy data decT (snd f) pos fuel 0) as [[vs c]|[]]; cbn [good] in H1; try contradiction; try exact I.
        cbn [bind good fst snd]. lia.
  Qed.

  Lemma legal_field_sizer_ref pre last f s : legal_field legal pre last f = true ->
    sizer_of (fst f) = Some s -> (s < length pre)%nat.
  Proof.
    unfold legal_field. intros H Hs. apply andb_prop in H. destruct H as [_ H].
    destruct (fst f); cbn [sizer_of] in Hs; try discriminate; injection Hs as ->.
    - apply andb_prop in H. destruct H as [_ H]. apply nth_error_Some. destruct (nth_error pre s); [discriminate|discriminate].
    - apply andb_prop in H. destruct H as [_ H]. apply nth_error_Some. destruct (nth_error pre s); [discriminate|discriminate].
  Qed.

  Lemma dec_fields_good fuel sa all_fs : okal sa -> Z.of_nat fuel > len data ->
    (forall i, is_sizer all_fs i = true -> exists k, nth_error all_fs i = Some (FPlain, TScalar k)) ->
    forall fs pre, all_fs = pre ++ fs -> legal_fields legal pre fs = true ->
    Forall (fun f => decP (snd f)) fs ->
    forall decoded pos, length decoded = length pre ->
    dec_inv all_fs decoded -> 0 <= pos ->
    match py_dec_fields e data decT fuel sa all_fs fs (fst (py_scan fs)) (length pre) decoded pos with
    | Ok (vs, endpos) => pos + match fs with f :: _ => flo f | [] => 0 end <= endpos
    | Err ProphyError => True
    | Err _ => False
    end.
  Proof.
    intros Hsa Hfuel Hsizers fs. induction fs as [|f r IH]; intros pre Eall Hl HIH decoded pos Hdec Hinv Hp.
    - cbn [py_scan fst py_dec_fields]. rewrite py_dist_pad by assumption. pose proof (pad_nonneg sa pos Hsa). lia.
    - rewrite py_scan_cons.
      inversion HIH as [|? ? HPf HIHr]; subst.
      pose proof (legal_fields_fok _ _ Hl) as Hok. inversion Hok as [|? ? Hokf Hokr]; subst.
      cbn [legal_fields] in Hl. apply andb_prop in Hl. destruct Hl as [Hlf Hlr].
      pose proof (pad_nonneg _ pos (falign_ok f)) as Hpad.
      set (pos1 := pos + pad (falign align f) pos).
      assert (Hnth : nth_error (pre ++ f :: r) (length pre) = Some f).
      { rewrite nth_error_app2 by lia. rewrite Nat.sub_diag. reflexivity. }
      pose proof (dec_field_good fuel (pre ++ f :: r) decoded (length pre) f pos1 HPf Hokf ltac:(unfold pos1; lia) Hfuel Hinv) as HF.
      assert (Hrefs : forall s, sizer_of (fst f) = Some s -> (s < length decoded)%nat /\ is_sizer (pre ++ f :: r) s = true).
      { intros s Hs. split; [rewrite Hdec; eapply legal_field_sizer_ref; eassumption|].
        unfold is_sizer. rewrite existsb_app. cbn [existsb]. unfold bound_to at 2. rewrite Hs, Nat.eqb_refl.
        rewrite orb_true_r. reflexivity. }
      assert (Hsc : fst f = FPlain -> is_sizer (pre ++ f :: r) (length pre) = true -> exists k, snd f = TScalar k).
      { intros _ Hs. destruct (Hsizers _ Hs) as [k Hk]. rewrite Hnth in Hk. injection Hk as Hk. exists k. rewrite Hk. reflexivity. }
      specialize (HF Hrefs Hsc).
      assert (Estep : forall p pr,
        py_dec_fields e data decT fuel sa (pre ++ f :: r) (f :: r) (p :: pr) (length pre) decoded pos =
        bind (py_dec_field e data decT fuel (pre ++ f :: r) decoded (length pre) f pos1) (fun x =>
          let pos2 := pos1 + snd x in
          let pos3 := match p with Some a => pos2 + py_dist pos2 a | None => pos2 end in
          py_dec_fields e data decT fuel sa (pre ++ f :: r) r pr (S (length pre)) (decoded ++ [fst x]) pos3)).
      { intros p pr. cbn [py_dec_fields]. rewrite py_falign_eq', py_dist_pad by apply falign_ok. reflexivity. }
      assert (Hnext : forall v n pos3, flo f <= n -> pos1 + n <= pos3 ->
                (is_sizer (pre ++ f :: r) (length pre) = true -> fst f = FPlain -> exists z, v = VInt z /\ 0 <= z) ->
                match py_dec_fields e data decT fuel sa (pre ++ f :: r) r (fst (py_scan r)) (S (length pre)) (decoded ++ [v]) pos3 with
                | Ok (vs, endpos) => pos + flo f <= endpos
                | Err ProphyError => True
                | Err _ => False
                end).
      { intros v n pos3 Hn H3 Hv.
        assert (Hflo : 0 <= flo f) by (unfold flo; destruct (fst f); try lia; destruct (stiff_eqb _ _); lia).
        specialize (IH (pre ++ [f]) ltac:(rewrite <- app_assoc; reflexivity) Hlr HIHr (decoded ++ [v]) pos3).
        rewrite !app_length in IH. cbn [length] in IH. replace (length pre + 1)%nat with (S (length pre)) in IH by lia.
        assert (Hinv' : dec_inv (pre ++ f :: r) (decoded ++ [v])).
        { intros s Hs Hlt. rewrite app_length in Hlt. cbn [length] in Hlt.
          destruct (Nat.eq_dec s (length decoded)) as [->|Hne].
          - rewrite nth_error_app2 by lia. rewrite Nat.sub_diag. cbn [nth_error].
            rewrite Hdec in Hs. destruct (Hsizers _ Hs) as [k Hk]. rewrite Hnth in Hk. injection Hk as Hk.
            destruct (Hv Hs ltac:(rewrite Hk; reflexivity)) as [z [-> Hz]]. exists z. split; [reflexivity|exact Hz].
          - rewrite nth_error_app1 by lia. apply Hinv; [exact Hs|lia]. }
        specialize (IH ltac:(lia) Hinv' ltac:(unfold pos1 in *; lia)).
        destruct (py_dec_fields e data decT fuel sa (pre ++ f :: r) r (fst (py_scan r)) (S (length pre)) (decoded ++ [v]) pos3) as [[vs endpos]|[]];
          try contradiction; [|exact I].
        assert (0 <= match r with f0 :: _ => flo f0 | [] => 0 end).
        { destruct r as [|g r']; [lia|]. unfold flo; destruct (fst g); try lia; destruct (stiff_eqb _ _); lia. }
        unfold pos1 in *. lia. }
      destruct (ends_block f); cbn [fst]; rewrite Estep;
        destruct (py_dec_field e data decT fuel (pre ++ f :: r) decoded (length pre) f pos1) as [[v n]|[]];
        cbn [good_field] in HF; try contradiction; try exact I;
        destruct HF as [Hn Hv]; cbn [bind fst snd]; cbn zeta.
      + apply (Hnext v n); try assumption. rewrite py_dist_pad by apply blockal_ok.
        pose proof (pad_nonneg (blockal r) (pos1 + n) (blockal_ok r)). lia.
      + apply (Hnext v n); try assumption. lia.
  Qed.
End Dec.

Lemma dec_arm_good e data decT arms : Forall (fun a => decP decT (snd a)) arms -> Forall aok arms ->
  forall i disc pos, 0 <= pos ->
  match py_dec_arm e data decT arms i disc pos with
  | Ok _ => True | Err ProphyError => True | Err _ => False
  end.
Proof.
  intros HIH Hok. induction HIH as [|a r Ha Hr IH]; intros i disc pos Hp; cbn [py_dec_arm]; [exact I|].
  inversion Hok as [|? ? Hoa Hor]; subst. destruct Hoa as [_ [Hla [Hnb _]]].
  destruct (fst a =? disc); [|apply IH; assumption].
  pose proof (dec_base_good e data decT (snd a) pos Ha Hla Hnb Hp) as H1.
  destruct (py_dec_base e data decT (snd a) pos) as [[v s]|[]]; cbn [good] in H1; try contradiction; exact I.
Qed.

Lemma first_field_progress fs : legal (TStruct fs) = true -> stiffness (TStruct fs) <> Unlimited ->
  match fs with f :: _ => flo f = 1 | [] => False end.
Proof.
  intros Hl Hu. destruct fs as [|f r]; [discriminate|]. cbn [legal] in Hl. cbn [legal_fields] in Hl.
  apply andb_prop in Hl. destruct Hl as [Hlf _]. unfold legal_field in Hlf. apply andb_prop in Hlf. destruct Hlf as [_ H].
  cbn [stiffness stiff_fields fold_right] in Hu. unfold flo, fstiff in *.
  destruct (fst f); try reflexivity.
  - destruct (stiffness (snd f)); try reflexivity. exfalso. apply Hu. reflexivity.
  - apply andb_prop in H. destruct H as [_ H]. destruct s; discriminate.
  - apply andb_prop in H. destruct H as [_ H]. destruct s; discriminate.
  - exfalso. apply Hu. reflexivity.
Qed.

(* C06, model level: totality and termination of the decoder model *)
Theorem py_dec_total e data fuel : Z.of_nat fuel > len data ->
  forall t, decP (py_dec e data fuel) t.
Proof.
  intros Hfuel t. induction t as [k| |vals|fs IH|arms IH] using ty_ind'; intros Hl Hc pos terminal Hp;
    try discriminate.
  - (* struct *)
    cbn [py_dec]. rewrite py_salign_eq.
    pose proof (dec_fields_good e data (py_dec e data fuel) fuel (salign align fs) fs (salign_ok fs) Hfuel) as HF.
    assert (Hsizers : forall i, is_sizer fs i = true -> exists k, nth_error fs i = Some (FPlain, TScalar k)).
    { intros i Hs. cbn [legal] in Hl. destruct fs as [|f0 r0]; [discriminate|].
      destruct (legal_sizer [] _ Hl i Hs) as [ts [Hn Hi]]. cbn [app] in Hn. destruct ts; try discriminate. eauto. }
    specialize (HF Hsizers fs [] eq_refl).
    assert (Hlf : legal_fields legal [] fs = true) by (cbn [legal] in Hl; destruct fs; [discriminate|exact Hl]).
    specialize (HF Hlf IH [] pos eq_refl).
    assert (Hinv : dec_inv fs []) by (intros s _ Hlt; cbn in Hlt; lia).
    specialize (HF Hinv Hp). cbn [length] in HF.
    destruct (py_dec_fields e data (py_dec e data fuel) fuel (salign align fs) fs fs (fst (py_scan fs)) 0 [] pos) as [[vs endpos]|[]];
      try contradiction; [|exact I].
    cbn [bind fst snd]. destruct (terminal && (endpos <? len data)); [exact I|]. cbn [good].
    destruct (stiff_eqb (stiffness (TStruct fs)) Unlimited) eqn:Es.
    + destruct fs as [|f r]; [lia|]. assert (0 <= flo f) by (unfold flo; destruct (fst f); try lia; destruct (stiff_eqb (stiffness (snd f)) Unlimited); lia). lia.
    + apply stiff_eqb_neq in Es. pose proof (first_field_progress fs Hl Es) as H1.
      destruct fs as [|f r]; [contradiction|]. lia.
  - (* union *)
    cbn [py_dec]. destruct (py_unpack_cases e U32 data pos) as [-> | [z ->]]; [exact I|]. cbn [bind fst snd].
    pose proof Hl as Hl0. apply legal_union in Hl. destruct Hl as [_ [Hok _]].
    pose proof (ualign_ok arms) as Hua. apply okal_pos in Hua.
    pose proof (dec_arm_good e data (py_dec e data fuel) arms IH Hok 0%nat z (pos + py_align (TUnion arms))) as HA.
    rewrite py_align_eq in *. cbn [align] in *. specialize (HA ltac:(lia)).
    destruct (py_dec_arm e data (py_dec e data fuel) arms 0 z (pos + ualign align arms)) as [v|[]]; try contradiction; [|exact I].
    cbn [bind]. rewrite (py_sizeof_eq (TUnion arms) Hl0 eq_refl).
    destruct (len data - pos <? size (TUnion arms)); [exact I|].
    destruct (terminal && _); [exact I|]. cbn [good stiffness stiff_eqb].
    cbn [size]. pose proof (usize_nonneg size arms). pose proof (pad_nonneg (ualign align arms) (ualign align arms + usize size arms) (ualign_ok arms)). lia.
Qed.

(* the statement of C06 for message.decode on a fresh message *)
Corollary py_decode_total e fs data : legal (TStruct fs) = true ->
  match py_decode e (TStruct fs) data with
  | Ok (_, n) => 0 <= n
  | Err ProphyError => True
  | Err _ => False
  end.
Proof.
  intros Hl. unfold py_decode.
  pose proof (py_dec_total e data (S (length data)) ltac:(unfold len; lia) (TStruct fs) Hl eq_refl 0 true ltac:(lia)) as H.
  destruct (py_dec e data (S (length data)) (TStruct fs) 0 true) as [[v n]|[]]; cbn [good] in H; try contradiction; try exact I.
  destruct (stiff_eqb _ _); lia.
Qed.
