(* proofs/PcFacts.v — prophyc's computed alignment, stiffness and size equal what the documented
   layout rules imply (the prophyc part of C04). *)
From Coq Require Import ZArith List Bool Lia ZifyBool.
From Prophy Require Import Bytes Schema Layout Wire Src PcModel
  Arith SpecAlign Views SpecLen SrcFacts PyStaticsFacts.
Import ListNotations.
Local Open Scope Z_scope.
Ltac Zify.zify_post_hook ::= Z.to_euclidean_division_equations.

(* ---- stiffness ---- *)
Definition kP (t : ty) : Prop := legal t = true -> pc_kind t = stiff_code (stiffness t).

Lemma stiff_code_max a b : stiff_code (stiff_max a b) = Z.max (stiff_code a) (stiff_code b).
Proof. destruct a, b; reflexivity. Qed.

Lemma stiff_code_range s : 0 <= stiff_code s <= 2.
Proof. destruct s; cbn; lia. Qed.

Lemma fixed_code t : is_fixed t = true -> stiff_code (stiffness t) = 0.
Proof. unfold is_fixed. rewrite stiff_eqb_eq. intros ->. reflexivity. Qed.

Lemma not_unl_code t : stiffness t <> Unlimited -> stiff_code (stiffness t) <= 1.
Proof. destruct (stiffness t); cbn; intros; try lia. congruence. Qed.

(* kinds of the members of a legal struct whose last member is not greedy *)
Lemma kinds_fold pre fs :
  Forall (fun f => kP (snd f)) fs -> legal_fields legal pre fs = true ->
  Forall (fun f => fst f <> FGreedy) fs ->
  let k := fold_right (fun f acc => Z.max (pc_member_kind pc_kind f) acc) K_FIXED fs in
  (if existsb (fun f => match fst f with FBound _ => true | _ => false end) fs then Z.max k K_DYNAMIC else k)
  = stiff_code (stiff_fields stiffness fs).
Proof.
  intros HIH. revert pre. induction HIH as [|f r Hf Hr IH]; intros pre Hl Hng; [reflexivity|].
  cbn [legal_fields] in Hl. apply andb_prop in Hl. destruct Hl as [Hlf Hlr].
  inversion Hng as [|? ? Hgf Hgr]; subst. specialize (IH _ Hlr Hgr). cbn zeta in IH.
  pose proof (legal_field_fok _ _ _ Hlf) as [Hlt Hk].
  cbn [fold_right existsb stiff_fields]. cbn zeta. rewrite stiff_code_max.
  unfold stiff_fields in IH. unfold pc_member_kind in *. rewrite (Hf Hlt).
  set (k := fold_right (fun f0 acc => Z.max (pc_kind (snd f0)) acc) K_FIXED r) in *.
  set (sr := stiff_code (fold_right (fun f0 acc => stiff_max (fstiff stiffness f0) acc) Fixed r)) in *.
  assert (Hk0 : 0 <= k).
  { unfold k. clear. induction r as [|g r IHr]; cbn [fold_right]; unfold K_FIXED in *; lia. }
  unfold fstiff, K_DYNAMIC, K_FIXED in *.
  revert Hk. destruct (fst f) eqn:Ek; intros Hk; try congruence; cbn [stiff_code orb];
    destruct (existsb _ r); cbn [orb];
    try (destruct Hk as [_ Hfx]; rewrite (fixed_code _ Hfx));
    try (apply not_unl_code in Hk); pose proof (stiff_code_range (stiffness (snd f))); lia.
Qed.

Lemma legal_greedy_last pre fs : legal_fields legal pre fs = true ->
  forall f r, fs = r ++ [f] -> Forall (fun g => fst g <> FGreedy) r.
Proof.
  revert pre. induction fs as [|g fs IH]; intros pre Hl f r E.
  - destruct r; discriminate.
  - cbn [legal_fields] in Hl. apply andb_prop in Hl. destruct Hl as [Hlf Hlr].
    destruct r as [|g' r']; [constructor|]. cbn [app] in E. injection E as -> E.
    constructor; [|eapply IH; eassumption].
    unfold legal_field in Hlf. destruct fs as [|x xs]; [destruct r'; discriminate|].
    intros Eg. rewrite Eg in Hlf. apply andb_prop in Hlf. destruct Hlf as [_ H]. discriminate.
Qed.

Lemma stiff_max_fixed_l x : stiff_max Fixed x = x.
Proof. destruct x; reflexivity. Qed.
Lemma stiff_max_assoc a b c : stiff_max a (stiff_max b c) = stiff_max (stiff_max a b) c.
Proof. destruct a, b, c; reflexivity. Qed.

Lemma stiff_fields_app a b :
  stiff_fields stiffness (a ++ b) = stiff_max (stiff_fields stiffness a) (stiff_fields stiffness b).
Proof.
  unfold stiff_fields. induction a as [|f a IH]; cbn [app fold_right].
  - rewrite stiff_max_fixed_l. reflexivity.
  - rewrite IH. apply stiff_max_assoc.
Qed.

Lemma pc_struct_kind_ne fs : fs <> [] ->
  pc_struct_kind pc_kind fs =
  (if match fst (last fs (FPlain, TByte)) with FGreedy => true | _ => false end then K_UNLIMITED
   else
     let k := fold_right (fun f acc => Z.max (pc_member_kind pc_kind f) acc) K_FIXED fs in
     if existsb (fun f => match fst f with FBound _ => true | _ => false end) fs
     then Z.max k K_DYNAMIC else k).
Proof. destruct fs; [congruence|reflexivity]. Qed.

Theorem pc_kind_eq t : kP t.
Proof.
  induction t as [k| |vals|fs IH|arms IH] using ty_ind'; intros Hl; try reflexivity.
  cbn [pc_kind stiffness]. cbn [legal] in Hl. destruct fs as [|f0 r0]; [discriminate|].
  rewrite pc_struct_kind_ne by discriminate.
  destruct (exists_last (l := f0 :: r0) ltac:(discriminate)) as [r [f E]].
  rewrite E in *. rewrite last_last.
  pose proof (legal_greedy_last [] _ Hl f r eq_refl) as Hng.
  destruct (fst f) eqn:Ek.
  6:{ (* greedy last *)
      rewrite stiff_fields_app. cbn [stiff_fields fold_right]. unfold fstiff. rewrite Ek.
      destruct (stiff_fields stiffness r); reflexivity. }
  all: apply (kinds_fold [] (r ++ [f]) IH Hl);
    apply Forall_app; split; [exact Hng|constructor; [congruence|constructor]].
Qed.

(* ---- alignment and size ---- *)
Definition szalP (t : ty) : Prop := legal t = true -> pc_align t = align t /\ pc_size t = size t.

(* what pc_member computes for a legal member whose type is already known to agree *)
Lemma pc_member_facts sT f : fok f -> pc_align (snd f) = align (snd f) ->
  pm_align (pc_member sT pc_align pc_kind f) = falign align f.
Proof.
  intros [Hl Hk] Ha. unfold pc_member, falign.
  assert (Hb : match snd f with TByte => pc_byte_size | _ => pc_align (snd f) end = align (snd f)).
  { rewrite Ha. destruct (snd f); try reflexivity. }
  destruct (fst f); cbn [pm_align]; rewrite ?pc_opt_alignment_spec, Hb; reflexivity.
Qed.

Lemma pc_member_size f : fok f -> pc_align (snd f) = align (snd f) -> pc_size (snd f) = size (snd f) ->
  pm_size (pc_member pc_size pc_align pc_kind f) = fsize size f.
Proof.
  intros [Hl Hk] Ha Hs. unfold pc_member, fsize, falign.
  assert (Hb : match snd f with TByte => pc_byte_size | _ => pc_align (snd f) end = align (snd f)).
  { rewrite Ha. destruct (snd f); try reflexivity. }
  assert (Hc : match snd f with TByte => pc_byte_size | _ => pc_size (snd f) end = size (snd f)).
  { rewrite Hs. destruct (snd f); try reflexivity. }
  destruct (fst f); cbn [pm_size]; rewrite ?pc_opt_size_spec, ?pc_opt_alignment_spec, ?pc_array_size_spec, ?Hb, ?Hc; lia.
Qed.

Lemma pc_member_splits sT f : fok f -> fstiff stiffness f <> Unlimited \/ fst f = FGreedy ->
  pm_splits (pc_member sT pc_align pc_kind f) = ends_block f.
Proof.
  intros [Hl Hk] Hu. unfold pm_splits, pc_member, ends_block, fstiff in *.
  pose proof (pc_kind_eq (snd f) Hl) as Hkd.
  destruct (fst f); cbn [pm_kind pm_nosize_arr]; rewrite Hkd; unfold K_DYNAMIC.
  - destruct Hu as [Hu|Hu]; [|discriminate]. destruct (stiffness (snd f)); try reflexivity. congruence.
  - destruct Hk as [_ Hfx]. rewrite (fixed_code _ Hfx). reflexivity.
  - destruct Hk as [_ Hfx]. rewrite (fixed_code _ Hfx). reflexivity.
  - rewrite orb_true_r. reflexivity.
  - destruct Hk as [_ Hfx]. rewrite (fixed_code _ Hfx). reflexivity.
  - rewrite orb_true_r. reflexivity.
Qed.

(* members of a legal struct: only the last one can be unlimited *)
Lemma legal_unl_last pre f r : legal_fields legal pre (f :: r) = true -> r <> [] ->
  fstiff stiffness f <> Unlimited.
Proof.
  intros Hl Hne. cbn [legal_fields] in Hl. apply andb_prop in Hl. destruct Hl as [Hlf _].
  destruct r as [|g r']; [congruence|]. unfold legal_field in Hlf. apply andb_prop in Hlf. destruct Hlf as [_ H].
  unfold fstiff. destruct (fst f); try discriminate.
  apply andb_prop in H. destruct H as [_ H]. cbn [orb] in H. apply negb_true_iff in H. apply stiff_eqb_neq in H. exact H.
Qed.

Definition pcms (fs : list field) : list pcm := map (pc_member pc_size pc_align pc_kind) fs.

Lemma pc_part_max_blockal pre fs : legal_fields legal pre fs = true ->
  Forall (fun f => pc_align (snd f) = align (snd f)) fs ->
  pc_part_max (pcms fs) = blockal fs.
Proof.
  revert pre. induction fs as [|f r IH]; intros pre Hl Ha; [reflexivity|].
  pose proof (legal_fields_fok _ _ Hl) as Hok. inversion Hok as [|? ? Hokf Hokr]; subst.
  inversion Ha as [|? ? Haf Har]; subst.
  cbn [pcms map pc_part_max blockal]. fold (pcms r).
  rewrite (pc_member_facts _ f Hokf Haf).
  destruct r as [|g r'].
  - cbn [pcms map pc_part_max blockal]. pose proof (falign_ok f) as H. apply okal_pos in H.
    destruct (pm_splits _), (ends_block f); lia.
  - assert (Hu : fstiff stiffness f <> Unlimited) by (eapply legal_unl_last; [eassumption|discriminate]).
    rewrite (pc_member_splits _ f Hokf (or_introl Hu)).
    cbn [legal_fields] in Hl. apply andb_prop in Hl. destruct Hl as [_ Hlr].
    rewrite (IH _ Hlr Har). reflexivity.
Qed.

Lemma sz_fields_walk pre fs : legal_fields legal pre fs = true ->
  Forall (fun f => pc_align (snd f) = align (snd f) /\ pc_size (snd f) = size (snd f)) fs ->
  forall prev after o,
  snd (pc_walk prev (pc_partial (pcms fs) after) o) = sz_fields size fs after o.
Proof.
  revert pre. induction fs as [|f r IH]; intros pre Hl Ha prev after o; [reflexivity|].
  pose proof (legal_fields_fok _ _ Hl) as Hok. inversion Hok as [|? ? Hokf Hokr]; subst.
  inversion Ha as [|? ? [Haf Hsf] Har]; subst.
  assert (Ha' : Forall (fun f => pc_align (snd f) = align (snd f)) (f :: r)).
  { apply Forall_forall. intros x Hx. rewrite Forall_forall in Ha. apply (Ha x Hx). }
  cbn [pcms map pc_partial]. fold (pcms r).
  set (m := pc_member pc_size pc_align pc_kind f).
  set (m' := if after then pm_set_align m (Z.max (pm_align m) (pc_part_max (m :: pcms r))) else m).
  assert (Eal : pm_align m' = if after then blockal (f :: r) else falign align f).
  { unfold m'. destruct after; [|apply pc_member_facts; assumption].
    cbn [pm_set_align pm_align]. change (m :: pcms r) with (pcms (f :: r)).
    rewrite (pc_part_max_blockal pre (f :: r) Hl Ha'). unfold m. rewrite (pc_member_facts _ f Hokf Haf).
    pose proof (falign_le_blockal f r). lia. }
  assert (Esz : pm_size m' = fsize size f).
  { unfold m'. destruct after; cbn [pm_set_align pm_size]; apply pc_member_size; assumption. }
  cbn [pc_walk]. fold m'.
  destruct (pc_walk m' (pc_partial (pcms r) (pm_splits m)) (o + (pm_size m' + pc_member_padding (pm_align m') o)))
    as [[ps lastm] fin] eqn:Ew.
  cbn [snd]. cbn [sz_fields].
  assert (Efin : fin = snd (pc_walk m' (pc_partial (pcms r) (pm_splits m)) (o + (pm_size m' + pc_member_padding (pm_align m') o))))
    by (rewrite Ew; reflexivity).
  rewrite Efin. clear Ew Efin.
  cbn [legal_fields] in Hl. apply andb_prop in Hl. destruct Hl as [Hlf Hlr].
  destruct r as [|g r'].
  - cbn [pcms map pc_partial pc_walk snd sz_fields]. rewrite Eal, Esz.
    rewrite pc_member_padding_spec by (destruct after; [apply blockal_ok|apply falign_ok]). lia.
  - assert (Hu : fstiff stiffness f <> Unlimited).
    { eapply legal_unl_last with (pre := pre) (r := g :: r'); [|discriminate].
      cbn [legal_fields]. rewrite Hlf. exact Hlr. }
    unfold m at 1. rewrite (pc_member_splits _ f Hokf (or_introl Hu)).
    rewrite (IH _ Hlr Har). rewrite Eal, Esz.
    rewrite pc_member_padding_spec by (destruct after; [apply blockal_ok|apply falign_ok]).
    f_equal. lia.
Qed.

(* raising some members to the alignment of their part does not change the struct alignment *)
Definition amax (ms : list pcm) : Z := fold_right (fun m acc => Z.max (pm_align m) acc) 1 ms.

Lemma pc_part_max_le ms : pc_part_max ms <= amax ms.
Proof.
  induction ms as [|m r IH]; cbn [pc_part_max amax fold_right]; [lia|].
  unfold amax in IH. destruct (pm_splits m); lia.
Qed.

Lemma amax_partial ms after : amax (pc_partial ms after) = amax ms.
Proof.
  revert after. induction ms as [|m r IH]; intros after; [reflexivity|].
  cbn [pc_partial amax fold_right]. fold (amax (pc_partial r (pm_splits m))). rewrite IH. fold (amax r).
  destruct after; [|reflexivity]. cbn [pm_set_align pm_align].
  pose proof (pc_part_max_le (m :: r)) as H. cbn [amax fold_right] in H. fold (amax r) in H. lia.
Qed.

Lemma pc_max_align_amax ms : Forall (fun m => 1 <= pm_align m) ms -> pc_max_align ms = amax ms.
Proof.
  intros H. destruct H as [|m r Hm Hr]; [reflexivity|]. unfold pc_max_align.
  rewrite (fold_left_max pm_align r _ Hm). reflexivity.
Qed.

Lemma amax_pcms fs : Forall fok fs -> Forall (fun f => pc_align (snd f) = align (snd f)) fs ->
  amax (map (pc_member (fun _ => 0) pc_align pc_kind) fs) = salign align fs
  /\ amax (pcms fs) = salign align fs.
Proof.
  intros Hok Ha. induction Hok as [|f r Hf Hr IH]; [split; reflexivity|].
  inversion Ha as [|? ? Haf Har]; subst. destruct (IH Har) as [I1 I2].
  cbn [pcms map amax fold_right]. fold (amax (map (pc_member (fun _ => 0) pc_align pc_kind) r)).
  fold (pcms r). fold (amax (pcms r)). rewrite I1, I2, !(pc_member_facts _ f Hf Haf). split; reflexivity.
Qed.

Lemma partial_align_ge ms after : Forall (fun m => 1 <= pm_align m) ms ->
  Forall (fun m => 1 <= pm_align m) (pc_partial ms after).
Proof.
  intros H. revert after. induction H as [|m r Hm Hr IH]; intros after; [constructor|].
  cbn [pc_partial]. constructor; [|apply IH]. destruct after; cbn [pm_set_align pm_align]; lia.
Qed.

Lemma pcms_align_ge sT fs : Forall fok fs -> Forall (fun f => pc_align (snd f) = align (snd f)) fs ->
  Forall (fun m => 1 <= pm_align m) (map (pc_member sT pc_align pc_kind) fs).
Proof.
  intros Hok Ha. induction Hok as [|f r Hf Hr IH]; [constructor|].
  inversion Ha as [|? ? Haf Har]; subst. cbn [map]. constructor; [|apply IH; assumption].
  rewrite (pc_member_facts _ f Hf Haf). pose proof (falign_ok f) as H. apply okal_pos in H. lia.
Qed.

Lemma pc_struct_layout_facts ms0 :
  ms0 <> [] ->
  fst (fst (pc_struct_layout ms0)) =
    (let ms := pc_partial ms0 false in
     let bs := snd (pc_walk (hd (mk_pcm 0 1 0 false false false false) ms) ms 0) in
     bs + pc_final_padding (pc_max_align ms) bs)
  /\ snd (fst (pc_struct_layout ms0)) = pc_max_align (pc_partial ms0 false).
Proof.
  intros Hne. unfold pc_struct_layout. destruct ms0 as [|m0 r0]; [congruence|].
  cbn [pc_partial hd]. cbn zeta.
  destruct (pc_walk _ _ 0) as [[ps lastm] bs]. cbn [fst snd]. split; reflexivity.
Qed.

Theorem pc_layout_eq t : szalP t.
Proof.
  induction t as [k| |vals|fs IH|arms IH] using ty_ind'; intros Hl; cbn [pc_align pc_size align size].
  - rewrite pc_builtin_size_spec. split; reflexivity.
  - rewrite pc_byte_size_spec. split; reflexivity.
  - rewrite pc_enum_size_spec. split; reflexivity.
  - pose proof Hl as Hl0. apply legal_struct in Hl. destruct Hl as [Hne Hok].
    assert (Hboth : Forall (fun f => pc_align (snd f) = align (snd f) /\ pc_size (snd f) = size (snd f)) fs).
    { clear -IH Hok. induction Hok as [|f r Hf Hr IHr]; [constructor|]. inversion IH as [|? ? H1 H2]; subst.
      constructor; [apply H1; apply Hf|apply IHr; assumption]. }
    assert (Ha : Forall (fun f => pc_align (snd f) = align (snd f)) fs).
    { apply Forall_forall. intros x Hx. rewrite Forall_forall in Hboth. apply (Hboth x Hx). }
    destruct (amax_pcms fs Hok Ha) as [A1 A2].
    split.
    + destruct (pc_struct_layout_facts (map (pc_member (fun _ => 0) pc_align pc_kind) fs)) as [_ E].
      { destruct fs; [congruence|discriminate]. }
      rewrite E, pc_max_align_amax, amax_partial by (apply partial_align_ge, pcms_align_ge; assumption). exact A1.
    + destruct (pc_struct_layout_facts (pcms fs)) as [E _].
      { destruct fs; [congruence|discriminate]. }
      unfold pcms in E. rewrite E. fold (pcms fs). cbn zeta.
      rewrite pc_max_align_amax, amax_partial, A2 by (apply partial_align_ge, pcms_align_ge; assumption).
      cbn [legal] in Hl0. destruct fs as [|f0 r0]; [congruence|].
      rewrite (sz_fields_walk [] (f0 :: r0) Hl0 Hboth).
      rewrite pc_final_padding_spec by apply salign_ok. reflexivity.
  - pose proof Hl as Hl0. apply legal_union in Hl. destruct Hl as [Hne [Hok _]].
    assert (Hboth : Forall (fun a => pc_align (snd a) = align (snd a) /\ pc_size (snd a) = size (snd a)) arms).
    { clear -IH Hok. induction Hok as [|a r Ha Hr IHr]; [constructor|]. inversion IH as [|? ? H1 H2]; subst.
      constructor; [apply H1; apply Ha|apply IHr; assumption]. }
    assert (EA : pc_union_align pc_align arms = ualign align arms).
    { unfold pc_union_align. rewrite pc_disc_size_spec. destruct arms as [|a r]; [congruence|].
      inversion Hboth as [|? ? [Ha _] Hr]; subst.
      rewrite (fold_left_max0 (fun b => pc_align (snd b)) r _ 0).
      2:{ rewrite Ha. pose proof (align_ok (snd a)) as H. apply okal_pos in H. lia. }
      cbn [ualign fold_right]. rewrite Ha.
      assert (E : Z.max 4 (fold_right (fun g acc => Z.max (pc_align (snd g)) acc) 0 r) = fold_right (fun a0 acc => Z.max (align (snd a0)) acc) 4 r).
      { clear -Hr. induction Hr as [|g r [Hg _] Hr IH]; cbn [fold_right]; [lia|]. rewrite Hg. lia. }
      lia. }
    split; [exact EA|]. unfold pc_union_size. cbn zeta. rewrite EA.
    assert (ES : match arms with [] => 0 | a :: r => fold_left (fun acc b => Z.max acc (pc_size (snd b))) r (pc_size (snd a)) end = usize size arms).
    { destruct arms as [|a r]; [congruence|]. inversion Hboth as [|? ? [_ Hs] Hr]; subst. inversion Hok as [|? ? Hoa Hor]; subst.
      destruct Hoa as [_ [Hla _]].
      rewrite (fold_left_max0 (fun b => pc_size (snd b)) r _ 0) by (rewrite Hs; apply size_nonneg; assumption).
      cbn [usize fold_right]. rewrite Hs. f_equal.
      clear -Hr. induction Hr as [|g r [_ Hg] Hr IH]; cbn [fold_right]; [reflexivity|]. rewrite Hg, IH. reflexivity. }
    rewrite ES. pose proof (usize_nonneg size arms). pose proof (ualign_ok arms) as Hua.
    rewrite pc_union_round_spec by (try assumption; apply okal_pos in Hua; lia).
    replace (usize size arms + ualign align arms) with (ualign align arms + usize size arms) by lia. reflexivity.
Qed.
