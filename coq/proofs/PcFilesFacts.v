(* proofs/PcFilesFacts.v — the memoising file processor computes the include tree of a file, which is a
   function of the files' contents alone (whatever was processed before, in whatever order), and hands every
   file to the content processor at most once. *)
From Coq Require Import List Bool Arith Lia.
From Prophy Require Import PcFiles.
Import ListNotations.

Scheme Flat_ind2 := Induction for Flat Sort Prop
  with FlatItems_ind2 := Induction for FlatItems Sort Prop.

Section Facts.
  Variable fs : path -> option (list item).

  (* ---- Flat is a function ---- *)
  Lemma Flat_fun_aux :
    forall p a (H : Flat fs p a), forall b, Flat fs p b -> a = b.
  Proof.
    apply (Flat_ind2 fs (fun p a _ => forall b, Flat fs p b -> a = b)
                        (fun its a _ => forall b, FlatItems fs its b -> a = b)).
    - intros p items ns E HI IH b Hb. inversion Hb as [p' items' ns' E' HI']; subst.
      rewrite E in E'. injection E' as <-. apply IH. exact HI'.
    - intros b Hb. inversion Hb. reflexivity.
    - intros d r ns HI IH b Hb. inversion Hb as [|d' r' ns' Hr|]; subst. f_equal. apply IH. exact Hr.
    - intros q nq r ns Hq IHq Hr IHr b Hb. inversion Hb as [| |q' nq' r' ns' Hq' Hr']; subst.
      rewrite (IHq nq' Hq'), (IHr ns' Hr'). reflexivity.
  Qed.

  Theorem Flat_fun p a b : Flat fs p a -> Flat fs p b -> a = b.
  Proof. intros Ha Hb. exact (Flat_fun_aux p a Ha b Hb). Qed.

  (* ---- soundness of the table: every stored result is the include tree of its file ---- *)
  Definition MemoOk (m : memo) : Prop := forall p r, lookup m p = Some (Some r) -> Flat fs p r.

  Lemma MemoOk_nil : MemoOk []. Proof. intros p r H. discriminate. Qed.

  Lemma MemoOk_mark m p : MemoOk m -> MemoOk ((p, None) :: m).
  Proof.
    intros H q r Hq. cbn [lookup] in Hq. destruct (Nat.eqb p q); [discriminate|]. apply H. exact Hq.
  Qed.

  Lemma MemoOk_store m p ns : MemoOk m -> Flat fs p ns -> MemoOk ((p, Some ns) :: m).
  Proof.
    intros H Hp q r Hq. cbn [lookup] in Hq. destruct (Nat.eqb p q) eqn:E.
    - apply Nat.eqb_eq in E. subst q. injection Hq as <-. exact Hp.
    - apply H. exact Hq.
  Qed.

  Definition ProcSound (process : fstate -> path -> fstate * fres) : Prop :=
    forall st q st' r, MemoOk (f_memo st) -> process st q = (st', FOk r) ->
      Flat fs q r /\ MemoOk (f_memo st').

  Lemma run_items_sound process : ProcSound process ->
    forall its st st' ns, MemoOk (f_memo st) -> run_items process its st = (st', FOk ns) ->
      FlatItems fs its ns /\ MemoOk (f_memo st').
  Proof.
    intros HP. induction its as [|it r IH]; intros st st' ns Hm H; cbn [run_items] in H.
    - injection H as <- <-. split; [constructor|exact Hm].
    - destruct it as [q|d].
      + destruct (process st q) as [st1 [nq|e]] eqn:Eq; [|discriminate].
        destruct (HP st q st1 nq Hm Eq) as [Hq Hm1].
        destruct (run_items process r st1) as [st2 [ns2|e]] eqn:Er; [|discriminate].
        injection H as <- <-. destruct (IH st1 st2 ns2 Hm1 Er) as [Hr Hm2].
        split; [constructor; assumption|exact Hm2].
      + destruct (run_items process r st) as [st2 [ns2|e]] eqn:Er; [|discriminate].
        injection H as <- <-. destruct (IH st st2 ns2 Hm Er) as [Hr Hm2].
        split; [constructor; assumption|exact Hm2].
  Qed.

  Theorem proc_sound fuel : ProcSound (proc fs fuel).
  Proof.
    induction fuel as [|k IH]; intros st p st' r Hm H; cbn [proc] in H; [discriminate|].
    destruct (fs p) as [items|] eqn:Ef; [|discriminate].
    destruct (lookup (f_memo st) p) as [[r0|]|] eqn:El.
    - injection H as <- <-. split; [apply Hm; exact El|exact Hm].
    - discriminate.
    - match type of H with context [run_items ?f ?i ?s] => destruct (run_items f i s) as [st2 [ns|e]] eqn:Er end;
        [|discriminate].
      injection H as <- <-.
      destruct (run_items_sound (proc fs k) IH items {| f_memo := (p, None) :: f_memo st; f_log := f_log st ++ [p] |} st2 ns (MemoOk_mark _ p Hm) Er) as [HI Hm2].
      assert (Hp : Flat fs p ns) by (econstructor; eassumption).
      split; [exact Hp|]. cbn [f_memo]. apply MemoOk_store; assumption.
  Qed.

  (* the input files of one run, in any order, each get the include tree of their own contents *)
  Theorem proc_mains_sound fuel : forall ps st st' rs, MemoOk (f_memo st) ->
    proc_mains fs fuel st ps = (st', rs) ->
    forall i p ns, nth_error ps i = Some p -> nth_error rs i = Some (FOk ns) -> Flat fs p ns.
  Proof.
    induction ps as [|p0 r IH]; intros st st' rs Hm H i p ns Hp Hr; cbn [proc_mains] in H.
    - destruct i; discriminate.
    - destruct (proc fs fuel st p0) as [st1 [n0|e]] eqn:E0.
      + destruct (proc fs fuel st1 p0) eqn:Dummy. clear Dummy.
        destruct (proc_sound fuel st p0 st1 n0 Hm E0) as [Hf Hm1].
        destruct (proc_mains fs fuel st1 r) as [st2 rs2] eqn:Er. injection H as <- <-.
        destruct i as [|j]; cbn [nth_error] in Hp, Hr.
        * injection Hp as <-. injection Hr as <-. exact Hf.
        * eapply IH; eassumption.
      + injection H as <- <-. destruct i as [|j]; cbn [nth_error] in Hr; [discriminate|]. destruct j; discriminate.
  Qed.

  (* whatever was processed before: the result for a file is the same *)
  Theorem proc_result_independent fuel1 fuel2 st1 st2 p st1' st2' r1 r2 :
    MemoOk (f_memo st1) -> MemoOk (f_memo st2) ->
    proc fs fuel1 st1 p = (st1', FOk r1) -> proc fs fuel2 st2 p = (st2', FOk r2) -> r1 = r2.
  Proof.
    intros H1 H2 E1 E2.
    destruct (proc_sound fuel1 st1 p st1' r1 H1 E1) as [F1 _].
    destruct (proc_sound fuel2 st2 p st2' r2 H2 E2) as [F2 _].
    exact (Flat_fun p r1 r2 F1 F2).
  Qed.

  (* ---- every file is handed to the content processor at most once ---- *)
  Definition LogInv (st : fstate) : Prop :=
    NoDup (f_log st) /\ (forall p, In p (f_log st) -> lookup (f_memo st) p <> None).
  Definition Mono (st st' : fstate) : Prop :=
    forall p, lookup (f_memo st) p <> None -> lookup (f_memo st') p <> None.

  Definition ProcLog (process : fstate -> path -> fstate * fres) : Prop :=
    forall st q st' r, LogInv st -> process st q = (st', r) -> LogInv st' /\ Mono st st'.

  Lemma Mono_refl st : Mono st st. Proof. intros p H. exact H. Qed.
  Lemma Mono_trans a b c : Mono a b -> Mono b c -> Mono a c.
  Proof. intros H1 H2 p H. apply H2, H1, H. Qed.

  Lemma run_items_log process : ProcLog process ->
    forall its st st' r, LogInv st -> run_items process its st = (st', r) -> LogInv st' /\ Mono st st'.
  Proof.
    intros HP. induction its as [|it rest IH]; intros st st' r Hl H; cbn [run_items] in H.
    - injection H as <- <-. split; [exact Hl|apply Mono_refl].
    - destruct it as [q|d].
      + destruct (process st q) as [st1 [nq|e]] eqn:Eq.
        * destruct (HP st q st1 _ Hl Eq) as [Hl1 M1].
          destruct (run_items process rest st1) as [st2 [ns2|e]] eqn:Er; injection H as <- <-;
            destruct (IH st1 st2 _ Hl1 Er) as [Hl2 M2]; (split; [exact Hl2|eapply Mono_trans; eassumption]).
        * injection H as <- <-. exact (HP st q st1 _ Hl Eq).
      + destruct (run_items process rest st) as [st2 [ns2|e]] eqn:Er; injection H as <- <-; exact (IH st st2 _ Hl Er).
  Qed.

  Lemma NoDup_app_end (l : list path) x : NoDup l -> ~ In x l -> NoDup (l ++ [x]).
  Proof.
    intros Hn Hx. induction Hn as [|y l Hy Hn IH]; cbn [app]; [constructor; [intros []|constructor]|].
    constructor.
    - intros Hin. apply in_app_or in Hin. destruct Hin as [Hin|[<-|[]]]; [contradiction|]. apply Hx. left. reflexivity.
    - apply IH. intros Hin. apply Hx. right. exact Hin.
  Qed.

  Lemma lookup_cons_ne m p v q : lookup m q <> None -> lookup ((p, v) :: m) q <> None.
  Proof. intros H. cbn [lookup]. destruct (Nat.eqb p q); [discriminate|exact H]. Qed.

  Theorem proc_log fuel : ProcLog (proc fs fuel).
  Proof.
    induction fuel as [|k IH]; intros st p st' r Hl H; cbn [proc] in H.
    - injection H as <- <-. split; [exact Hl|apply Mono_refl].
    - destruct (fs p) as [items|] eqn:Ef; [|injection H as <- <-; split; [exact Hl|apply Mono_refl]].
      destruct (lookup (f_memo st) p) as [[r0|]|] eqn:El;
        try (injection H as <- <-; split; [exact Hl|apply Mono_refl]).
      set (st1 := {| f_memo := (p, None) :: f_memo st; f_log := f_log st ++ [p] |}) in *.
      assert (Hl1 : LogInv st1).
      { destruct Hl as [Hn Hi]. split; cbn [st1 f_log f_memo].
        - apply NoDup_app_end; [exact Hn|]. intros Hin. apply (Hi p Hin). exact El.
        - intros q Hq. apply in_app_or in Hq. destruct Hq as [Hq|[<-|[]]].
          + apply lookup_cons_ne. apply Hi. exact Hq.
          + cbn [lookup]. rewrite Nat.eqb_refl. discriminate. }
      assert (M1 : Mono st st1) by (intros q Hq; apply lookup_cons_ne; exact Hq).
      destruct (run_items (proc fs k) items st1) as [st2 [ns|e]] eqn:Er; injection H as <- <-;
        destruct (run_items_log (proc fs k) IH items st1 st2 _ Hl1 Er) as [Hl2 M2].
      + split.
        * destruct Hl2 as [Hn Hi]. split; cbn [f_log f_memo]; [exact Hn|]. intros q Hq. apply lookup_cons_ne. apply Hi. exact Hq.
        * intros q Hq. cbn [f_memo]. apply lookup_cons_ne. apply M2, M1, Hq.
      + split; [exact Hl2|eapply Mono_trans; eassumption].
  Qed.

  Theorem proc_mains_log fuel : forall ps st st' rs, LogInv st -> proc_mains fs fuel st ps = (st', rs) -> NoDup (f_log st').
  Proof.
    induction ps as [|p0 r IH]; intros st st' rs Hl H; cbn [proc_mains] in H.
    - injection H as <- <-. exact (proj1 Hl).
    - destruct (proc fs fuel st p0) as [st1 [n0|e]] eqn:E0.
      + destruct (proc_log fuel st p0 st1 _ Hl E0) as [Hl1 _].
        destruct (proc_mains fs fuel st1 r) as [st2 rs2] eqn:Er. injection H as <- <-. eapply IH; eassumption.
      + injection H as <- <-. exact (proj1 (proj1 (proc_log fuel st p0 st1 _ Hl E0))).
  Qed.

  Lemma LogInv_st0 : LogInv st0.
  Proof. split; [constructor|intros p []]. Qed.

  (* ---- the definitions of the result are those of the text with every include expanded in place ---- *)
  Inductive Inline : path -> list nat -> Prop :=
  | Inline_file p items ds : fs p = Some items -> InlineItems items ds -> Inline p ds
  with InlineItems : list item -> list nat -> Prop :=
  | II_nil : InlineItems [] []
  | II_def d r ds : InlineItems r ds -> InlineItems (IDef d :: r) (d :: ds)
  | II_inc q dq r ds : Inline q dq -> InlineItems r ds -> InlineItems (IInc q :: r) (dq ++ ds).

  Lemma node_defs_inc q ns : node_defs (NInc q ns) = defs_of ns.
  Proof. cbn [node_defs]. unfold defs_of. induction ns as [|x r IH]; [reflexivity|]. cbn [flat_map]. rewrite <- IH. reflexivity. Qed.

  Theorem Flat_inline : forall p ns, Flat fs p ns -> Inline p (defs_of ns).
  Proof.
    apply (Flat_ind2 fs (fun p ns _ => Inline p (defs_of ns)) (fun its ns _ => InlineItems its (defs_of ns))).
    - intros p items ns E _ IH. econstructor; eassumption.
    - constructor.
    - intros d r ns _ IH. unfold defs_of. cbn [flat_map node_defs app]. constructor. exact IH.
    - intros q nq r ns _ IHq _ IHr. unfold defs_of. cbn [flat_map]. rewrite node_defs_inc.
      inversion IHq as [p' items ds E HI]; subst. constructor; [exact IHq|exact IHr].
  Qed.
End Facts.

(* ---- the fuel is never exhausted: the nesting depth of includes is bounded by the number of files ---- *)
Section Fuel.
  Variable fs : path -> option (list item).
  Variable univ : list path.                      (* every existing file *)
  Hypothesis univ_all : forall p, fs p <> None -> In p univ.

  Definition unmarked (st : fstate) (p : path) : bool :=
    match lookup (f_memo st) p with None => true | Some _ => false end.
  Definition free (st : fstate) : nat := length (filter (unmarked st) univ).

  Lemma filter_length_le (f g : path -> bool) l :
    (forall x, f x = true -> g x = true) -> length (filter f l) <= length (filter g l).
  Proof.
    intros H. induction l as [|x r IH]; [apply le_n|]. cbn [filter].
    destruct (f x) eqn:Ef.
    - rewrite (H x Ef). cbn [length]. lia.
    - destruct (g x); cbn [length]; lia.
  Qed.

  Lemma filter_length_lt (f g : path -> bool) l p :
    (forall x, f x = true -> g x = true) -> In p l -> f p = false -> g p = true ->
    length (filter f l) < length (filter g l).
  Proof.
    intros H Hin Hf Hg. induction l as [|x r IH]; [destruct Hin|]. cbn [filter].
    destruct Hin as [->|Hin].
    - rewrite Hf, Hg. cbn [length]. pose proof (filter_length_le f g r H). lia.
    - specialize (IH Hin). destruct (f x) eqn:Ef.
      + rewrite (H x Ef). cbn [length]. lia.
      + destruct (g x); cbn [length]; lia.
  Qed.

  Lemma free_mono st st' : Mono st st' -> free st' <= free st.
  Proof.
    intros M. unfold free. apply filter_length_le. intros x Hx. unfold unmarked in *.
    destruct (lookup (f_memo st) x) eqn:E; [|reflexivity].
    exfalso. assert (Hne : lookup (f_memo st) x <> None) by congruence. specialize (M x Hne).
    destruct (lookup (f_memo st') x); [discriminate|congruence].
  Qed.

  Definition NoFuelErr (process : fstate -> path -> fstate * fres) (bound : nat) : Prop :=
    forall st q st' r, LogInv st -> free st < bound -> process st q = (st', r) -> r <> FErr EFuel.

  Lemma run_items_fuel process bound : ProcLog process -> NoFuelErr process bound ->
    forall its st st' r, LogInv st -> free st < bound -> run_items process its st = (st', r) -> r <> FErr EFuel.
  Proof.
    intros HL HN. induction its as [|it rest IH]; intros st st' r Hl Hf H; cbn [run_items] in H.
    - injection H as <- <-. discriminate.
    - destruct it as [q|d].
      + destruct (process st q) as [st1 [nq|e]] eqn:Eq.
        * destruct (HL st q st1 _ Hl Eq) as [Hl1 M1]. pose proof (free_mono st st1 M1) as Hfm.
          destruct (run_items process rest st1) as [st2 [ns2|e]] eqn:Er; injection H as <- <-; [discriminate|].
          apply (IH st1 st2 (FErr e) Hl1 ltac:(lia) Er).
        * injection H as <- <-. apply (HN st q st1 (FErr e) Hl Hf Eq).
      + destruct (run_items process rest st) as [st2 [ns2|e]] eqn:Er; injection H as <- <-; [discriminate|].
        apply (IH st st2 (FErr e) Hl Hf Er).
  Qed.

  Theorem proc_fuel_enough fuel : NoFuelErr (proc fs fuel) fuel.
  Proof.
    induction fuel as [|k IH]; intros st p st' r Hl Hf H; [lia|]. cbn [proc] in H.
    destruct (fs p) as [items|] eqn:Ef; [|injection H as <- <-; discriminate].
    destruct (lookup (f_memo st) p) as [[r0|]|] eqn:El; try (injection H as <- <-; discriminate).
    set (st1 := {| f_memo := (p, None) :: f_memo st; f_log := f_log st ++ [p] |}) in *.
    assert (Hl1 : LogInv st1).
    { destruct Hl as [Hn Hi]. split; cbn [st1 f_log f_memo].
      - apply NoDup_app_end; [exact Hn|]. intros Hin. apply (Hi p Hin). exact El.
      - intros q Hq. apply in_app_or in Hq. destruct Hq as [Hq|[<-|[]]].
        + apply lookup_cons_ne. apply Hi. exact Hq.
        + cbn [lookup]. rewrite Nat.eqb_refl. discriminate. }
    assert (Hf1 : free st1 < k).
    { assert (free st1 < free st); [|lia]. unfold free. apply (filter_length_lt _ _ univ p).
      - intros x Hx. unfold unmarked in *. cbn [st1 f_memo lookup] in Hx. destruct (Nat.eqb p x); [discriminate|exact Hx].
      - apply univ_all. congruence.
      - unfold unmarked. cbn [st1 f_memo lookup]. rewrite Nat.eqb_refl. reflexivity.
      - unfold unmarked. rewrite El. reflexivity. }
    destruct (run_items (proc fs k) items st1) as [st2 [ns|e]] eqn:Er; injection H as <- <-; [discriminate|].
    apply (run_items_fuel (proc fs k) k (proc_log fs k) IH items st1 st2 (FErr e) Hl1 Hf1 Er).
  Qed.

  (* a whole run: with more fuel than there are files no input file ever ends in EFuel *)
  Theorem proc_mains_fuel_enough fuel : length univ < fuel ->
    forall ps st st' rs, LogInv st -> proc_mains fs fuel st ps = (st', rs) -> ~ In (FErr EFuel) rs.
  Proof.
    intros Hb. induction ps as [|p0 r IH]; intros st st' rs Hl H; cbn [proc_mains] in H.
    - injection H as <- <-. intros [].
    - assert (Hf : free st < fuel).
      { unfold free. pose proof (filter_length_le (unmarked st) (fun _ => true) univ (fun _ _ => eq_refl)) as Hle.
        assert (E : filter (fun _ : path => true) univ = univ) by (clear; induction univ as [|x l IHl]; [reflexivity|cbn [filter]; rewrite IHl; reflexivity]).
        rewrite E in Hle. lia. }
      destruct (proc fs fuel st p0) as [st1 [n0|e]] eqn:E0.
      + destruct (proc_log fs fuel st p0 st1 _ Hl E0) as [Hl1 _].
        destruct (proc_mains fs fuel st1 r) as [st2 rs2] eqn:Er. injection H as <- <-.
        intros [Hin|Hin]; [discriminate|]. exact (IH st1 st2 rs2 Hl1 Er Hin).
      + injection H as <- <-. intros [Hin|[]]. injection Hin as ->.
        exact (proc_fuel_enough fuel st p0 st1 (FErr EFuel) Hl Hf E0 eq_refl).
  Qed.
End Fuel.
