(* proofs/CppDecRoundtrip.v — C03, decode side (model level): the generated C++ decoder reads back the
   canonical encoding of every well-typed value of a legal message type without an unlimited part, and
   stops exactly at its end. *)
From Coq Require Import ZArith List Bool Lia ZifyBool.
From Prophy Require Import Bytes Schema Layout Wire Src PyStatics PyEncode PyDecode PcModel CppFull
  Arith SpecAlign Views SpecLen BytesFacts SrcFacts PyStaticsFacts PyEncodeFacts PyDecodeFacts PyRoundtrip
  PcFacts PcRawFacts CppSizeFacts CppEncFacts CppDecFacts.
Import ListNotations.
Local Open Scope Z_scope.
Ltac Zify.zify_post_hook ::= Z.to_euclidean_division_equations.

Section RT.
  Variable e : endian.
  Variable data : bytes.
  Hypothesis Hsmall : len data < 2 ^ 64.
  Variable fuel : nat.
  Let decV := cpp_dec e data fuel.

  Lemma rem_eq pos : 0 <= pos <= len data -> remaining data pos = len data - pos.
  Proof. intros H. unfold remaining, size_t. apply Z.mod_small. lia. Qed.

  Lemma load_rt w z pre post : data = pre ++ enc_int e w z ++ post -> 0 <= w ->
    cpp_load e data w (len pre) = CTrue (z mod 256 ^ w).
  Proof.
    intros Hd Hw. unfold cpp_load. pose proof (len_nonneg pre) as Hp. pose proof (len_nonneg post) as Hq.
    assert (Hlen : len data = len pre + w + len post) by (rewrite Hd, !len_app, len_enc_int by exact Hw; lia).
    assert (E : (0 <=? len pre) && (len pre + w <=? len data) = true) by lia. rewrite E.
    rewrite Hd, (slice_mid' pre (enc_int e w z) post) by (try reflexivity; rewrite len_enc_int; lia).
    rewrite dec_enc_uint by exact Hw. reflexivity.
  Qed.

  Lemma scalar_rt t z pre post : PyDecode.is_comp t = false -> legal t = true -> wt t (VInt z) = true ->
    data = pre ++ render e (layout t (VInt z) (len pre)) ++ post ->
    cpp_dec_scalar e data t (len pre) = CTrue (VInt z, len pre + segslen (layout t (VInt z) (len pre))).
  Proof.
    intros Hc Hl Hw Hd. pose proof (len_nonneg pre) as Hp. pose proof (len_nonneg post) as Hq.
    destruct t as [k| |vals|fs|arms]; try discriminate; cbn [layout] in Hd; rewrite render_one in Hd; cbn [render_seg] in Hd;
      cbn [cpp_dec_scalar layout segslen fold_right seglen].
    - pose proof (sk_size_pos k) as Hk. rewrite pc_builtin_size_spec.
      assert (Hlen : len data = len pre + sk_size k + len post) by (rewrite Hd, !len_app, len_enc_int by lia; lia).
      rewrite rem_eq by lia. assert (E : (len data - len pre <? sk_size k) = false) by lia. rewrite E.
      rewrite (load_rt (sk_size k) z pre post Hd ltac:(lia)). cbn [cbind].
      unfold cpp_reinterpret. rewrite (py_fmt_signed_spec k), pc_builtin_size_spec. cbn [wt] in Hw.
      rewrite (scalar_roundtrip k z Hw). do 2 f_equal; try lia.
    - rewrite pc_byte_size_spec. cbn [wt] in Hw. unfold is_byte in Hw.
      assert (Hlen : len data = len pre + 1 + len post) by (rewrite Hd, !len_app, len_enc_int by lia; lia).
      rewrite rem_eq by lia. assert (E : (len data - len pre <? 1) = false) by lia. rewrite E.
      rewrite (load_rt 1 z pre post Hd ltac:(lia)). cbn [cbind]. change (256 ^ 1) with 256. rewrite Z.mod_small by lia.
      do 2 f_equal; try lia.
    - rewrite pc_enum_size_spec. cbn [wt] in Hw. cbn [legal] in Hl.
      assert (Hr : 0 <= z < 2 ^ 32).
      { destruct vals as [|v0 vr]; [discriminate|]. rewrite forallb_forall in Hl.
        apply existsb_exists in Hw. destruct Hw as [y [Hy Ey]]. specialize (Hl y Hy).
        unfold u32_ok in Hl. apply Z.eqb_eq in Ey. subst y. lia. }
      assert (Hlen : len data = len pre + 4 + len post) by (rewrite Hd, !len_app, len_enc_int by lia; lia).
      rewrite rem_eq by lia. assert (E : (len data - len pre <? 4) = false) by lia. rewrite E.
      rewrite (load_rt 4 z pre post Hd ltac:(lia)). cbn [cbind]. change (256 ^ 4) with (2 ^ 32). rewrite Z.mod_small by lia.
      do 2 f_equal; try lia.
  Qed.

  (* the induction hypothesis *)
  Definition crtP (t : ty) : Prop :=
    legal t = true -> PyDecode.is_comp t = true -> stiffness t <> Unlimited ->
    forall v pre post, data = pre ++ render e (layout t v (len pre)) ++ post ->
      wt t v = true -> len pre mod align t = 0 ->
      decV t (len pre) = CTrue (v, len pre + segslen (layout t v (len pre))).

  Lemma obj_rt t x pre post : crtP t -> legal t = true -> not_byte t = true -> stiffness t <> Unlimited ->
    data = pre ++ render e (layout t x (len pre)) ++ post -> wt t x = true -> len pre mod align t = 0 ->
    cpp_dec_obj e data decV t (len pre) = CTrue (x, len pre + segslen (layout t x (len pre))).
  Proof.
    intros HP Hl Hnb Hu Hd Hw Ha. destruct t as [k| |vals|fs|arms]; try discriminate; cbn [cpp_dec_obj].
    - destruct x; try discriminate. apply (scalar_rt _ z pre post); try assumption; reflexivity.
    - destruct x; try discriminate. apply (scalar_rt _ z pre post); try assumption; reflexivity.
    - apply (HP Hl eq_refl Hu x pre post); assumption.
    - apply (HP Hl eq_refl Hu x pre post); assumption.
  Qed.

  Lemma loop_step t m pos : cpp_dec_loop e data decV t (S m) pos =
    cbind (match t with
           | TStruct _ | TUnion _ => decV t pos
           | TScalar k => cbind (cpp_load e data (pc_builtin_size k) pos) (fun u => CTrue (VInt (cpp_reinterpret k u), pos + pc_builtin_size k))
           | _ => cbind (cpp_load e data (cpp_elem_size t) pos) (fun u => CTrue (VInt u, pos + cpp_elem_size t))
           end) (fun r => cbind (cpp_dec_loop e data decV t m (snd r)) (fun rs => CTrue (fst r :: fst rs, snd rs))).
  Proof. reflexivity. Qed.

  (* one element inside the loop: the scalar branch of the loop is the scalar decoder without its test *)
  Lemma loop_elem_rt t x pre post : crtP t -> legal t = true -> stiffness t <> Unlimited ->
    data = pre ++ render e (layout t x (len pre)) ++ post -> wt t x = true -> len pre mod align t = 0 ->
    (match t with
     | TStruct _ | TUnion _ => decV t (len pre)
     | TScalar k => cbind (cpp_load e data (pc_builtin_size k) (len pre)) (fun u => CTrue (VInt (cpp_reinterpret k u), len pre + pc_builtin_size k))
     | _ => cbind (cpp_load e data (cpp_elem_size t) (len pre)) (fun u => CTrue (VInt u, len pre + cpp_elem_size t))
     end) = CTrue (x, len pre + segslen (layout t x (len pre))).
  Proof.
    intros HP Hl Hu Hd Hw Ha. pose proof (len_nonneg pre) as Hp.
    destruct t as [k| |vals|fs|arms].
    - destruct x; try discriminate. cbn [layout] in *. rewrite render_one in Hd. cbn [render_seg] in Hd.
      pose proof (sk_size_pos k) as Hk. rewrite pc_builtin_size_spec.
      rewrite (load_rt (sk_size k) z pre post Hd ltac:(lia)). cbn [cbind segslen fold_right seglen].
      unfold cpp_reinterpret. rewrite (py_fmt_signed_spec k), pc_builtin_size_spec. cbn [wt] in Hw.
      rewrite (scalar_roundtrip k z Hw). do 2 f_equal; try lia.
    - destruct x; try discriminate. cbn [layout cpp_elem_size] in *. rewrite render_one in Hd. cbn [render_seg] in Hd.
      rewrite pc_byte_size_spec. cbn [wt] in Hw. unfold is_byte in Hw.
      rewrite (load_rt 1 z pre post Hd ltac:(lia)). cbn [cbind segslen fold_right seglen]. change (256 ^ 1) with 256. rewrite Z.mod_small by lia.
      do 2 f_equal; try lia.
    - destruct x; try discriminate. cbn [layout cpp_elem_size] in *. rewrite render_one in Hd. cbn [render_seg] in Hd.
      rewrite pc_enum_size_spec. cbn [wt] in Hw. cbn [legal] in Hl.
      assert (Hr : 0 <= z < 2 ^ 32).
      { destruct vals as [|v0 vr]; [discriminate|]. rewrite forallb_forall in Hl.
        apply existsb_exists in Hw. destruct Hw as [y [Hy Ey]]. specialize (Hl y Hy).
        unfold u32_ok in Hl. apply Z.eqb_eq in Ey. subst y. lia. }
      rewrite (load_rt 4 z pre post Hd ltac:(lia)). cbn [cbind segslen fold_right seglen]. change (256 ^ 4) with (2 ^ 32). rewrite Z.mod_small by lia.
      do 2 f_equal; try lia.
    - apply (HP Hl eq_refl Hu x pre post); assumption.
    - apply (HP Hl eq_refl Hu x pre post); assumption.
  Qed.

  Lemma loop_rt t : crtP t -> legal t = true -> stiffness t <> Unlimited ->
    forall xs pre post, data = pre ++ render e (lay_elems layout t xs (len pre)) ++ post ->
    forallb (wt t) xs = true -> len pre mod align t = 0 ->
    cpp_dec_loop e data decV t (length xs) (len pre) = CTrue (xs, len pre + segslen (lay_elems layout t xs (len pre))).
  Proof.
    intros HP Hl Hu xs. induction xs as [|x xr IH]; intros pre post Hd Hw Ha.
    - cbn [length cpp_dec_loop]. rewrite lay_elems_nil. cbn. do 2 f_equal; try lia.
    - cbn [forallb] in Hw. apply andb_prop in Hw. destruct Hw as [Hwx Hwr].
      rewrite lay_elems_cons in *. rewrite render_app in Hd.
      destruct (layout_lengths_at t x (len pre) Hl Hwx Ha) as [L1 [L2 _]].
      set (B := render e (layout t x (len pre))) in *.
      assert (HlB : len B = segslen (layout t x (len pre))) by (apply len_render; assumption).
      cbn [length]. rewrite loop_step.
      rewrite (loop_elem_rt t x pre (render e (lay_elems layout t xr (len pre + segslen (layout t x (len pre)))) ++ post) HP Hl Hu);
        try assumption; [|rewrite Hd; fold B; rewrite <- app_assoc; reflexivity].
      cbn [cbind fst snd].
      specialize (IH (pre ++ B) post). rewrite len_app, HlB in IH.
      rewrite IH; try assumption.
      + cbn [cbind fst snd]. rewrite segslen_app. do 2 f_equal; try lia.
      + rewrite Hd. rewrite <- !app_assoc. reflexivity.
      + apply add_mod_keep; [apply align_ok|assumption..].
  Qed.

  Lemma dec_n_rt t : crtP t -> legal t = true -> stiffness t <> Unlimited ->
    forall xs pre post, data = pre ++ render e (lay_elems layout t xs (len pre)) ++ post ->
    forallb (wt t) xs = true -> len pre mod align t = 0 ->
    cpp_dec_n e data decV t (len xs) (len pre) = CTrue (xs, len pre + segslen (lay_elems layout t xs (len pre))).
  Proof.
    intros HP Hl Hu xs pre post Hd Hw Ha. unfold cpp_dec_n.
    replace (Z.to_nat (len xs)) with (length xs) by (unfold len; lia).
    pose proof (loop_rt t HP Hl Hu xs pre post Hd Hw Ha) as HL.
    destruct t as [k| |vals|fs|arms]; try exact HL.
    - pose proof (forallb_Forall _ _ Hw) as HwF.
      destruct (elems_len (TScalar k) (layout_lengths (TScalar k)) Hl xs HwF (len pre) Ha) as [L1 [_ L3]]. specialize (L3 eq_refl).
      pose proof (len_nonneg pre). pose proof (len_nonneg post). pose proof (segslen_nonneg _ L1).
      assert (Hlen : len data = len pre + segslen (lay_elems layout (TScalar k) xs (len pre)) + len post)
        by (rewrite Hd, !len_app, len_render by assumption; lia).
      rewrite rem_eq by lia. cbn [cpp_elem_size pc_size]. rewrite pc_builtin_size_spec. cbn [size] in L3.
      assert (E : (len data - len pre <? len xs * sk_size k) = false) by lia. rewrite E. exact HL.
    - pose proof (forallb_Forall _ _ Hw) as HwF.
      destruct (elems_len (TByte) (layout_lengths (TByte)) Hl xs HwF (len pre) Ha) as [L1 [_ L3]]. specialize (L3 eq_refl).
      pose proof (len_nonneg pre). pose proof (len_nonneg post). pose proof (segslen_nonneg _ L1).
      assert (Hlen : len data = len pre + segslen (lay_elems layout (TByte) xs (len pre)) + len post)
        by (rewrite Hd, !len_app, len_render by assumption; lia).
      rewrite rem_eq by lia. cbn [cpp_elem_size pc_size]. rewrite pc_byte_size_spec. cbn [size] in L3.
      assert (E : (len data - len pre <? len xs * 1) = false) by lia. rewrite E. exact HL.
    - pose proof (forallb_Forall _ _ Hw) as HwF.
      destruct (elems_len (TEnum vals) (layout_lengths (TEnum vals)) Hl xs HwF (len pre) Ha) as [L1 [_ L3]]. specialize (L3 eq_refl).
      pose proof (len_nonneg pre). pose proof (len_nonneg post). pose proof (segslen_nonneg _ L1).
      assert (Hlen : len data = len pre + segslen (lay_elems layout (TEnum vals) xs (len pre)) + len post)
        by (rewrite Hd, !len_app, len_render by assumption; lia).
      rewrite rem_eq by lia. cbn [cpp_elem_size pc_size]. rewrite pc_enum_size_spec. cbn [size] in L3.
      assert (E : (len data - len pre <? len xs * 4) = false) by lia. rewrite E. exact HL.
  Qed.

  Lemma advance_rt n pos : 0 <= n -> 0 <= pos -> pos + n <= len data -> cpp_advance data n pos = CTrue (pos + n).
  Proof. intros Hn Hp Hl. unfold cpp_advance. rewrite rem_eq by lia. assert (E : (len data - pos <? n) = false) by lia. rewrite E. reflexivity. Qed.

  Lemma elem_size_eq t : not_byte t = true -> pc_size t = size t -> cpp_elem_size t = size t.
  Proof. intros Hnb Hs. destruct t; try discriminate; cbn [cpp_elem_size]; exact Hs. Qed.

  Definition maxn_of (all_fs : list field) (i : nat) : Z :=
    fold_right (fun g acc => match fst g with FLimited lim s => if Nat.eqb s i then lim else acc | _ => acc end) (2 ^ 64 - 1) all_fs.

  Lemma member_rt all_fs decoded i f v pre post :
    crtP (snd f) -> fok f -> fstiff stiffness f <> Unlimited ->
    pc_align (snd f) = align (snd f) -> pc_size (snd f) = size (snd f) ->
    data = pre ++ render e (lay_body layout f v (len pre)) ++ post ->
    wt_field wt f v = true -> len pre mod falign align f = 0 ->
    (forall s, sizer_of (fst f) = Some s -> exists xs, v = VList xs /\ nth_error decoded s = Some (VInt (len xs))) ->
    (fst f = FPlain -> is_sizer all_fs i = true ->
       exists k n, f = (FPlain, TScalar k) /\ v = VInt n /\ in_range k n = true /\ 0 <= n /\ n <= maxn_of all_fs i /\
                   n <= len data - (len pre + sk_size k)) ->
    cpp_dec_member e data decV fuel all_fs decoded i f (pc_member pc_size pc_align pc_kind f) (len pre)
    = CTrue (v, len pre + segslen (lay_body layout f v (len pre))).
  Proof.
    intros HP Hok Hu Hal Hsz Hd Hw Ha Hhint Hsiz. pose proof Hok as [Hl Hk].
    assert (Ha' : len pre mod align (snd f) = 0).
    { apply (mod_down _ (falign align f)); [apply align_ok|apply falign_ok|apply align_le_falign|exact Ha]. }
    pose proof (len_nonneg pre) as Hpre. pose proof (len_nonneg post) as Hpost.
    pose proof (pc_member_size f Hok Hal Hsz) as Hms.
    pose proof (pc_member_facts pc_size f Hok Hal) as Hma.
    unfold cpp_dec_member. cbn zeta. unfold lay_body, wt_field, fstiff in *.
    revert Hk Hu Hd Hw Hhint Hsiz Hms Hma.
    destruct (fst f) as [| |m|s|m s|] eqn:Ek; intros Hk Hu Hd Hw Hhint Hsiz Hms Hma.
    - (* plain *)
      destruct (is_sizer all_fs i) eqn:Es.
      + destruct (Hsiz eq_refl eq_refl) as [k [n [Ef [-> [Hr [Hn0 [Hmax Hrem]]]]]]]. rewrite Ef in *. cbn [snd] in *.
        rewrite (scalar_rt (TScalar k) n pre post eq_refl eq_refl Hr Hd). cbn [cbind fst snd layout segslen fold_right seglen].
        pose proof (sk_size_pos k) as Hkp.
        assert (Hst : size_t n = n) by (unfold size_t; apply Z.mod_small; lia). rewrite Hst.
        fold (maxn_of all_fs i). assert (E1 : (maxn_of all_fs i <? n) = false) by lia. rewrite E1.
        rewrite rem_eq by lia. assert (E2 : (len data - (len pre + (sk_size k + 0)) <? n) = false) by lia. rewrite E2. reflexivity.
      + apply (obj_rt (snd f) v pre post); try assumption.
    - (* optional *)
      destruct Hk as [Hnb Hfx].
      assert (Efa : falign align f = Z.max 4 (align (snd f))) by (unfold falign; rewrite Ek; reflexivity).
      assert (Hus : stiffness (snd f) <> Unlimited).
      { unfold is_fixed in Hfx. apply stiff_eqb_eq in Hfx. rewrite Hfx. discriminate. }
      pose proof (falign_ok f) as Hfa. assert (H4 : 4 <= falign align f) by lia.
      rewrite Hma.
      destruct v as [z| |x|xs|ws|c x]; try discriminate Hw.
      + (* absent *)
        rewrite !render_cons, render_nil in Hd. cbn [render_seg] in Hd. rewrite <- !app_assoc in Hd.
        pose proof (size_nonneg _ Hl) as Hs0.
        assert (Hlen : len data = len pre + 4 + (falign align f - 4) + size (snd f) + len post).
        { rewrite Hd, !len_app, len_enc_int, !len_zeros by lia. change (len (@nil Z)) with 0. lia. }
        assert (Hsc : cpp_dec_scalar e data (TScalar U32) (len pre) = CTrue (VInt 0, len pre + 4)).
        { rewrite (scalar_rt (TScalar U32) 0 pre (zeros (falign align f - 4) ++ zeros (size (snd f)) ++ [] ++ post) eq_refl eq_refl eq_refl).
          - cbn [layout segslen fold_right seglen sk_size]. do 2 f_equal.
          - cbn [layout]. rewrite render_one. cbn [render_seg sk_size]. exact Hd. }
        rewrite Hsc. cbn [cbind fst snd]. cbn [Z.eqb].
        assert (Hadv : (if 4 <? falign align f then cpp_advance data (falign align f - 4) (len pre + 4) else CTrue (len pre + 4))
                       = CTrue (len pre + falign align f)).
        { destruct (4 <? falign align f) eqn:E4; [rewrite advance_rt by lia; f_equal; lia|f_equal; lia]. }
        rewrite Hadv. cbn [cbind]. rewrite (elem_size_eq _ Hnb Hsz), advance_rt by lia. cbn [cbind].
        cbn [segslen fold_right seglen]. do 2 f_equal; try lia.
      + (* present *)
        rewrite !render_cons in Hd. cbn [render_seg] in Hd. rewrite <- !app_assoc in Hd.
        set (pre' := pre ++ enc_int e 4 1 ++ zeros (falign align f - 4)).
        assert (Hl' : len pre' = len pre + falign align f).
        { unfold pre'. rewrite !len_app, len_enc_int, len_zeros by lia. lia. }
        assert (Hov : len pre' mod align (snd f) = 0).
        { rewrite Hl'. apply add_mod_keep; [apply align_ok|assumption|]. rewrite Efa, Z.max_comm. apply max_mod; [apply align_ok|apply okal_4]. }
        destruct (layout_lengths_at (snd f) x (len pre') Hl Hw Hov) as [A1 _]. pose proof (segslen_nonneg _ A1) as Hx0.
        assert (Hlen : len data = len pre' + segslen (layout (snd f) x (len pre')) + len post).
        { pose proof Hd as Hd2. rewrite <- Hl' in Hd2. rewrite Hd2 at 1. rewrite !len_app, len_enc_int, len_zeros by lia. rewrite (len_render e _ A1). lia. }
        assert (Hsc : cpp_dec_scalar e data (TScalar U32) (len pre) = CTrue (VInt 1, len pre + 4)).
        { rewrite (scalar_rt (TScalar U32) 1 pre (zeros (falign align f - 4) ++ render e (layout (snd f) x (len pre + falign align f)) ++ post) eq_refl eq_refl eq_refl).
          - cbn [layout segslen fold_right seglen sk_size]. do 2 f_equal.
          - cbn [layout]. rewrite render_one. cbn [render_seg sk_size]. exact Hd. }
        rewrite Hsc. cbn [cbind fst snd]. change (1 =? 0) with false. cbn iota.
        assert (Hadv : (if 4 <? falign align f then cpp_advance data (falign align f - 4) (len pre + 4) else CTrue (len pre + 4))
                       = CTrue (len pre')).
        { rewrite Hl'. destruct (4 <? falign align f) eqn:E4; [rewrite advance_rt by lia; f_equal; lia|f_equal; lia]. }
        rewrite Hadv. cbn [cbind].
        rewrite (obj_rt (snd f) x pre' post HP Hl Hnb Hus); try assumption.
        * cbn [cbind fst snd]. rewrite !segslen_cons. cbn [seglen]. rewrite <- Hl'. do 2 f_equal; try lia.
        * rewrite Hl'. rewrite Hd at 1. unfold pre'. rewrite <- !app_assoc. reflexivity.
    - (* fixed array *)
      destruct Hk as [Hn Hfx]. destruct v as [z| |x|xs|ws|c x]; try discriminate Hw. apply andb_prop in Hw. destruct Hw as [Hlen Hall].
      assert (Hus : stiffness (snd f) <> Unlimited).
      { unfold is_fixed in Hfx. apply stiff_eqb_eq in Hfx. rewrite Hfx. discriminate. }
      replace m with (len xs) by lia.
      rewrite (dec_n_rt (snd f) HP Hl Hus xs pre post Hd Hall Ha'). reflexivity.
    - (* dynamic array *)
      destruct v as [z| |x|xs|ws|c x]; try discriminate Hw.
      destruct (Hhint s eq_refl) as [xs' [Ev Hh]]. injection Ev as <-. rewrite Hh. cbn [cbind].
      rewrite (dec_n_rt (snd f) HP Hl Hk xs pre post Hd Hw Ha'). reflexivity.
    - (* limited array *)
      destruct Hk as [Hn Hfx]. destruct v as [z| |x|xs|ws|c x]; try discriminate Hw. apply andb_prop in Hw. destruct Hw as [Hlen Hall].
      assert (Hus : stiffness (snd f) <> Unlimited).
      { unfold is_fixed in Hfx. apply stiff_eqb_eq in Hfx. rewrite Hfx. discriminate. }
      destruct (Hhint s eq_refl) as [xs' [Ev Hh]]. injection Ev as <-. rewrite Hh. cbn [cbind].
      pose proof (forallb_Forall _ _ Hall) as HallF.
      destruct (elems_len _ (layout_lengths (snd f)) Hl xs HallF (len pre) Ha') as [L1 [L2 L3]].
      specialize (L3 Hfx). pose proof (size_nonneg _ Hl) as Hsz0.
      assert (Hle : len xs * size (snd f) <= m * size (snd f)) by (apply Z.mul_le_mono_nonneg_r; lia).
      rewrite render_app, render_one in Hd. cbn [render_seg] in Hd. rewrite <- app_assoc in Hd.
      rewrite (dec_n_rt (snd f) HP Hl Hus xs pre (zeros (m * size (snd f) - segslen (lay_elems layout (snd f) xs (len pre))) ++ post) Hd Hall Ha').
      cbn [cbind fst snd].
      assert (Ems : pm_size (pc_member pc_size pc_align pc_kind f) = m * size (snd f)).
      { rewrite Hms. unfold fsize. rewrite Ek. reflexivity. }
      rewrite Ems.
      assert (Hlen' : len data = len pre + m * size (snd f) + len post).
      { rewrite Hd, !len_app, len_zeros, len_render by (try assumption; lia). lia. }
      rewrite advance_rt by lia. cbn [cbind]. rewrite segslen_app, segslen_cons. cbn [seglen segslen fold_right].
      do 2 f_equal; try lia.
    - exfalso. apply Hu. reflexivity.
  Qed.
End RT.

(* ---- every value of a type that is not unlimited occupies at least one byte ---- *)
Lemma elems_at_least t : legal t = true -> (forall x o, wt t x = true -> o mod align t = 0 -> 1 <= segslen (layout t x o)) ->
  forall xs o, Forall (fun x => wt t x = true) xs -> o mod align t = 0 -> len xs <= segslen (lay_elems layout t xs o).
Proof.
  intros Hl H1 xs. induction xs as [|x xr IH]; intros o Hw Ho; [rewrite lay_elems_nil; cbn; lia|].
  inversion Hw as [|? ? Hx Hr]; subst. rewrite lay_elems_cons, segslen_app, len_cons.
  destruct (layout_lengths_at t x o Hl Hx Ho) as [_ [L2 _]].
  specialize (H1 x o Hx Ho). specialize (IH (o + segslen (layout t x o)) Hr ltac:(apply add_mod_keep; [apply align_ok|assumption|assumption])). lia.
Qed.

Lemma layout_nonempty t : legal t = true -> stiffness t <> Unlimited ->
  forall x o, wt t x = true -> o mod align t = 0 -> 1 <= segslen (layout t x o).
Proof.
  induction t as [k| |vals|fs IH|arms IH] using ty_ind'; intros Hl Hu x o Hw Ho.
  - destruct x; try discriminate. cbn [layout segslen fold_right seglen]. pose proof (sk_size_pos k). lia.
  - destruct x; discriminate.
  - destruct x; discriminate.
  - pose proof Hl as Hl0. apply wt_struct in Hw. destruct Hw as [vs [-> [H2 _]]]. apply legal_struct in Hl. destruct Hl as [Hne Hok].
    pose proof (first_field_progress fs Hl0 Hu) as Hflo.
    destruct fs as [|f r]; [contradiction|]. inversion H2 as [|? v ? vr Hwf H2r]; subst.
    inversion Hok as [|? ? Hokf Hokr]; subst. inversion IH as [|? ? IHf IHr]; subst. cbn beta in IHf.
    cbn [layout lay_fields]. cbn [align] in Ho. rewrite segslen_cons, segslen_app. cbn [seglen].
    pose proof (falign_ok f) as Hfo. pose proof (pad_nonneg (falign align f) o Hfo) as Hp.
    set (o1 := o + pad (falign align f) o).
    assert (Ho1 : o1 mod falign align f = 0) by (apply pad_aligned; exact Hfo).
    destruct (fields_len (salign align (f :: r)) r (salign_ok _) ltac:(apply Forall_forall; intros; apply layout_lengths) Hokr vr H2r
                (ends_block f) (o1 + segslen (lay_body layout f v o1))) as [S1 _].
    pose proof (segslen_nonneg _ S1) as Hrest.
    destruct (body_len f v o1 (layout_lengths (snd f)) Hokf Hwf Ho1) as [B1 _]. pose proof (segslen_nonneg _ B1) as Hb0.
    assert (Hbody : 1 <= segslen (lay_body layout f v o1)).
    { destruct Hokf as [Hlf Hkf]. unfold flo in Hflo. unfold lay_body, wt_field in *.
      assert (Ho1' : o1 mod align (snd f) = 0).
      { apply (mod_down _ (falign align f)); [apply align_ok|exact Hfo|apply align_le_falign|exact Ho1]. }
      destruct (fst f) eqn:Ek; try discriminate Hflo.
      - destruct (stiff_eqb (stiffness (snd f)) Unlimited) eqn:Es; [discriminate Hflo|]. apply stiff_eqb_neq in Es.
        apply IHf; assumption.
      - destruct v; try discriminate; rewrite ?segslen_cons; cbn [seglen]; pose proof (falign_ok f) as Hx; unfold falign in *; rewrite Ek in *.
        + cbn [segslen fold_right seglen]. destruct Hkf as [_ Hfx]. pose proof (size_nonneg _ Hlf). lia.
        + assert (Hov : (o1 + Z.max 4 (align (snd f))) mod align (snd f) = 0).
          { apply add_mod_keep; [apply align_ok|assumption|]. rewrite Z.max_comm. apply max_mod; [apply align_ok|apply okal_4]. }
          destruct (layout_lengths_at _ v _ Hlf Hwf Hov) as [A1 _]. pose proof (segslen_nonneg _ A1). lia.
      - destruct Hkf as [Hn Hfx]. destruct v; try discriminate. apply andb_prop in Hwf. destruct Hwf as [Hlen Hall].
        assert (Hus : stiffness (snd f) <> Unlimited) by (unfold is_fixed in Hfx; apply stiff_eqb_eq in Hfx; rewrite Hfx; discriminate).
        pose proof (elems_at_least (snd f) Hlf (fun x o' => IHf Hlf Hus x o') vs o1 (forallb_Forall _ _ Hall) Ho1'). lia. }
    lia.
  - apply wt_union in Hw. destruct Hw as [i [x' [-> Hw]]]. apply wt_arms_nth in Hw. destruct Hw as [a [Hn Hwa]].
    cbn [layout]. rewrite (lay_arm_nth arms i x' _ a Hn). rewrite !segslen_cons. cbn [seglen].
    pose proof (ualign_ge4 arms).
    apply legal_union in Hl. destruct Hl as [_ [Hok _]]. pose proof (nth_error_In _ _ Hn) as Hin.
    rewrite Forall_forall in Hok. destruct (Hok a Hin) as [Hd [Hla [_ Hfa]]].
    assert (Hoa : (o + ualign align arms) mod align (snd a) = 0).
    { cbn [align] in Ho. pose proof (ualign_ok arms) as Hua. apply add_mod_keep; [apply align_ok| |].
      - apply (mod_down _ (ualign align arms)); [apply align_ok|assumption|apply arm_le_ualign; assumption|exact Ho].
      - apply (mod_down _ (ualign align arms)); [apply align_ok|assumption|apply arm_le_ualign; assumption|apply self_mod; assumption]. }
    destruct (layout_lengths_at (snd a) x' _ Hla Hwa Hoa) as [A1 [_ A3]]. specialize (A3 Hfa).
    rewrite segslen_app. cbn [segslen fold_right seglen]. pose proof (segslen_nonneg _ A1).
    pose proof (arm_le_usize size arms a Hin). cbn [size].
    pose proof (pad_nonneg (ualign align arms) (ualign align arms + usize size arms) (ualign_ok arms)). lia.
Qed.

(* the bytes of a member list are at least the elements of any counted array in it *)
Lemma fields_cover sa : okal sa -> forall r vr, Forall2 (fun f v => wt_field wt f v = true) r vr -> Forall fok r ->
  forall j g xs after o, nth_error r j = Some g -> nth_error vr j = Some (VList xs) ->
  (exists s, sizer_of (fst g) = Some s) ->
  len xs <= segslen (lay_fields layout sa r vr after o).
Proof.
  intros Hsa r vr H2. induction H2 as [|f v r' vr' Hfv Hr IH]; intros Hok j g xs after o Hg Hv Hs; [destruct j; discriminate|].
  inversion Hok as [|? ? Hokf Hokr]; subst.
  cbn [lay_fields]. rewrite segslen_cons, segslen_app. cbn [seglen].
  set (a := if after then blockal (f :: r') else falign align f).
  assert (Hao : okal a) by (unfold a; destruct after; [apply blockal_ok|apply falign_ok]).
  pose proof (falign_ok f) as Hfo. pose proof (falign_le_blockal f r') as Hfb.
  assert (Hfa : falign align f <= a) by (unfold a; destruct after; lia).
  pose proof (pad_nonneg a o Hao) as Hp. set (o1 := o + pad a o).
  assert (Ho1 : o1 mod falign align f = 0) by (apply (mod_down _ a); try assumption; apply pad_aligned; exact Hao).
  destruct (body_len f v o1 (layout_lengths (snd f)) Hokf Hfv Ho1) as [B1 _]. pose proof (segslen_nonneg _ B1) as Hb0.
  destruct (fields_len sa r' Hsa ltac:(apply Forall_forall; intros; apply layout_lengths) Hokr vr' Hr (ends_block f) (o1 + segslen (lay_body layout f v o1))) as [S1 _].
  pose proof (segslen_nonneg _ S1) as Hrest.
  destruct j as [|j]; cbn [nth_error] in Hg, Hv.
  - injection Hg as <-. injection Hv as ->. destruct Hs as [s Hs].
    destruct Hokf as [Hlf Hkf]. unfold lay_body, wt_field in *.
    assert (Ho1' : o1 mod align (snd f) = 0).
    { apply (mod_down _ (falign align f)); [apply align_ok|exact Hfo|apply align_le_falign|exact Ho1]. }
    destruct (fst f) eqn:Ek; cbn [sizer_of] in Hs; try discriminate.
    + pose proof (elems_at_least (snd f) Hlf (layout_nonempty (snd f) Hlf Hkf) xs o1 (forallb_Forall _ _ Hfv) Ho1'). lia.
    + destruct Hkf as [Hn Hfx]. apply andb_prop in Hfv. destruct Hfv as [Hlen Hall].
      assert (Hus : stiffness (snd f) <> Unlimited) by (unfold is_fixed in Hfx; apply stiff_eqb_eq in Hfx; rewrite Hfx; discriminate).
      pose proof (elems_at_least (snd f) Hlf (layout_nonempty (snd f) Hlf Hus) xs o1 (forallb_Forall _ _ Hall) Ho1') as He.
      destruct (elems_len _ (layout_lengths (snd f)) Hlf xs (forallb_Forall _ _ Hall) o1 Ho1') as [_ [_ L3]]. specialize (L3 Hfx).
      rewrite segslen_app in *. cbn [segslen fold_right seglen] in *.
      pose proof (size_nonneg _ Hlf). assert (len xs * size (snd f) <= n * size (snd f)) by (apply Z.mul_le_mono_nonneg_r; lia). lia.
  - specialize (IH Hokr j g xs (ends_block f) (o1 + segslen (lay_body layout f v o1)) Hg Hv Hs). lia.
Qed.

Section RTF.
  Variable e : endian.
  Variable data : bytes.
  Hypothesis Hsmall : len data < 2 ^ 64.
  Variable fuel : nat.
  Let decV := cpp_dec e data fuel.

  Definition HHc (all_vs : list value) (i : nat) (fs : list field) (vs : list value) : Prop :=
    forall j f v, nth_error fs j = Some f -> nth_error vs j = Some v -> forall s, sizer_of (fst f) = Some s ->
      exists xs, v = VList xs /\ nth_error all_vs s = Some (VInt (len xs)) /\ (s < i + j)%nat.

  (* a counter: in range, not above the limit of a limited array it counts, and counting an array that follows *)
  Definition HSc (all_fs : list field) (i : nat) (fs : list field) (vs : list value) : Prop :=
    forall j f v, nth_error fs j = Some f -> nth_error vs j = Some v -> fst f = FPlain -> is_sizer all_fs (i + j) = true ->
      exists k n, f = (FPlain, TScalar k) /\ v = VInt n /\ in_range k n = true /\ 0 <= n /\ n <= maxn_of all_fs (i + j) /\
        exists j' g xs, (j < j')%nat /\ nth_error fs j' = Some g /\ nth_error vs j' = Some (VList xs) /\
                        (exists s, sizer_of (fst g) = Some s) /\ len xs = n.

  Lemma pad_stmt_rt p q : 0 <= q -> (p < 0 -> okal (- p)) -> q + padn p q <= len data ->
    (if p <? 0 then cpp_align_to data (- p) q else if 0 <? p then cpp_advance data p q else CTrue q) = CTrue (q + padn p q).
  Proof.
    intros Hq Hp Hle. unfold padn in *. destruct (p <? 0) eqn:E1.
    - unfold cpp_align_to. assert (E : (len data <? cpp_align (- p) q) = false) by lia. rewrite E. f_equal. lia.
    - destruct (0 <? p) eqn:E2; [rewrite (advance_rt e data Hsmall fuel) by lia; reflexivity|]. f_equal. lia.
  Qed.

  Lemma cpp_dec_fields_cons all_fs f fr m mr p pr i decoded pos :
    cpp_dec_fields e data decV fuel all_fs (f :: fr) (m :: mr) (p :: pr) i decoded pos =
    cbind (cpp_dec_member e data decV fuel all_fs decoded i f m pos) (fun r =>
    cbind (if p <? 0 then cpp_align_to data (- p) (snd r) else if 0 <? p then cpp_advance data p (snd r) else CTrue (snd r)) (fun pos' =>
    cpp_dec_fields e data decV fuel all_fs fr mr pr (S i) (decoded ++ [fst r]) pos')).
  Proof. reflexivity. Qed.

  Lemma cfields_rt sa all_fs all_vs : okal sa ->
    forall fs pre_fs, all_fs = pre_fs ++ fs -> legal_fields legal pre_fs fs = true ->
    forall vs, Forall2 (fun f v => wt_field wt f v = true) fs vs ->
    Forall (fun f => crtP e data fuel (snd f)) fs ->
    Forall (fun f => pc_align (snd f) = align (snd f) /\ pc_size (snd f) = size (snd f)) fs ->
    Forall (fun f => fstiff stiffness f <> Unlimited) fs -> fs <> [] ->
    forall decoded prev (after : bool) bs B x pre post,
      length decoded = length pre_fs -> all_vs = decoded ++ vs ->
      HHc all_vs (length decoded) fs vs -> HSc all_fs (length decoded) fs vs ->
      (if after then True else okal B /\ blockal fs <= B /\ (bs - len pre) mod B = 0) ->
      (x < 0 -> okal (- x)) ->
      padn x (fields_end fs vs after (len pre)) = pad sa (fields_end fs vs after (len pre)) ->
      data = pre ++ render e (lay_fields layout sa fs vs after (len pre)) ++ post ->
      cpp_dec_fields e data decV fuel all_fs fs (pcms fs)
        (tl (fst (fst (pc_walk prev (pc_partial (pcms fs) after) bs))) ++ [x]) (length decoded) decoded
        (len pre + pad (if after then blockal fs else falign align (hd (FPlain, TByte) fs)) (len pre))
      = CTrue (decoded ++ vs, len pre + segslen (lay_fields layout sa fs vs after (len pre))).
  Proof.
    intros Hsa fs. induction fs as [|f r IH]; intros pre_fs Eall Hl vs H2 HP Hboth Hnu Hne decoded prev after bs B x pre post
      Hdl; [congruence|].
    pose proof (legal_fields_fok _ _ Hl) as Hok. inversion Hok as [|? ? Hokf Hokr]; subst.
    inversion Hboth as [|? ? [Haf Hsf] Hbr]; subst. inversion HP as [|? ? HPf HPr]; subst.
    inversion Hnu as [|? ? Hnuf Hnur]; subst. inversion H2 as [|? v ? vr Hwf H2r]; subst.
    intros Hall Hhh Hhs Hinv Hxo Hfin Hd.
    assert (Ha' : Forall (fun f => pc_align (snd f) = align (snd f)) (f :: r)).
    { apply Forall_forall. intros y Hy. rewrite Forall_forall in Hboth. apply (Hboth y Hy). }
    destruct (partial_head pre_fs f r after Hl Ha') as [Epar _]. cbn zeta in Epar. cbn [hd].
    set (m := pc_member pc_size pc_align pc_kind f) in *.
    set (m' := if after then pm_set_align m (Z.max (pm_align m) (pc_part_max (m :: pcms r))) else m) in *.
    set (a := if after then blockal (f :: r) else falign align f).
    assert (Hao : okal a) by (unfold a; destruct after; [apply blockal_ok|apply falign_ok]).
    pose proof (falign_ok f) as Hfo. pose proof (falign_le_blockal f r) as Hfb.
    assert (Hfa : falign align f <= a) by (unfold a; destruct after; lia).
    pose proof (len_nonneg pre) as Hpre. pose proof (len_nonneg post) as Hpost.
    pose proof (pad_nonneg a (len pre) Hao) as Hp0.
    set (p0 := pad a (len pre)) in *.
    set (pre1 := pre ++ zeros p0).
    assert (Hl1 : len pre1 = len pre + p0) by (unfold pre1; rewrite len_app, len_zeros by lia; lia).
    assert (Ho1 : len pre1 mod falign align f = 0).
    { rewrite Hl1. apply (mod_down _ a); try assumption. apply pad_aligned. exact Hao. }
    rewrite Epar, walk_cons. cbn [tl].
    change (pcms (f :: r)) with (m :: pcms r).
    cbn [lay_fields] in Hd |- *. fold a in Hd |- *. fold p0 in Hd |- *. rewrite render_pad_cons, render_app in Hd.
    rewrite <- Hl1 in Hd |- *.
    destruct (body_len f v (len pre1) (layout_lengths (snd f)) Hokf Hwf Ho1) as [B1 _].
    set (Bd := render e (lay_body layout f v (len pre1))) in *.
    assert (HlB : len Bd = segslen (lay_body layout f v (len pre1))) by (apply len_render; assumption).
    pose proof (len_nonneg Bd) as HlB0.
    set (o' := len pre1 + segslen (lay_body layout f v (len pre1))) in *.
    set (rest := render e (lay_fields layout sa r vr (ends_block f) o')) in *.
    cbn [fields_end] in Hfin. fold a in Hfin. fold p0 in Hfin. rewrite <- Hl1 in Hfin. fold o' in Hfin.
    destruct (fields_len sa r Hsa ltac:(apply Forall_forall; intros; apply layout_lengths) Hokr vr H2r (ends_block f) o') as [S1 _].
    assert (Hlr : len rest = segslen (lay_fields layout sa r vr (ends_block f) o')) by (apply len_render; assumption).
    pose proof (segslen_nonneg _ S1) as Hrest0.
    assert (Hlen : len data = len pre1 + len Bd + len rest + len post).
    { rewrite Hd. unfold pre1. rewrite !len_app, len_zeros by lia. lia. }
    (* the member itself *)
    assert (Hbody : cpp_dec_member e data decV fuel (pre_fs ++ f :: r) decoded (length decoded) f m (len pre1)
                    = CTrue (v, o')).
    { unfold o', m. apply (member_rt e data Hsmall fuel (pre_fs ++ f :: r) decoded (length decoded) f v pre1 (rest ++ post)); try assumption.
      - fold Bd. rewrite Hd. unfold pre1. rewrite <- !app_assoc. reflexivity.
      - intros s Hs. destruct (Hhh 0%nat f v eq_refl eq_refl s Hs) as [xs [Ev [Hn Hlt]]].
        exists xs. split; [exact Ev|]. rewrite Hall in Hn. rewrite nth_error_app1 in Hn by lia. exact Hn.
      - intros Ek Es. destruct (Hhs 0%nat f v eq_refl eq_refl Ek ltac:(rewrite Nat.add_0_r; exact Es))
          as [k [n [Ef [Ev [Hr [Hn0 [Hmax [j' [g [xs [Hj' [Hg [Hxs [Hsz Hlx]]]]]]]]]]]]]].
        exists k, n. rewrite Nat.add_0_r in Hmax. repeat split; try assumption.
        destruct j' as [|j']; [lia|]. cbn [nth_error] in Hg, Hxs.
        pose proof (fields_cover sa Hsa r vr H2r Hokr j' g xs (ends_block f) o' Hg Hxs Hsz) as Hcov.
        assert (Elb : len Bd = sk_size k).
        { rewrite HlB. rewrite Ef, Ev. unfold lay_body. cbn [fst snd layout segslen fold_right seglen]. lia. }
        lia. }
    assert (Hinv0 : if after then True else okal B /\ blockal (f :: r) <= B /\ (bs - len pre) mod B = 0) by exact Hinv.
    destruct r as [|g r'].
    - (* the last member *)
      assert (Evr : vr = []) by (inversion H2r; reflexivity). subst vr. cbn [pcms map pc_partial pc_walk fst app]. rewrite cpp_dec_fields_cons.
      rewrite Hdl. rewrite <- Hdl. rewrite Hbody. cbn [cbind fst snd].
      cbn [fields_end] in Hfin.
      assert (Hrest : rest = zeros (pad sa o')) by (unfold rest; cbn [lay_fields]; rewrite render_one; reflexivity).
      assert (Hps : 0 <= pad sa o') by (apply pad_nonneg; exact Hsa).
      rewrite pad_stmt_rt; [| |exact Hxo|].
      + cbn [cbind]. cbn [lay_fields]. rewrite segslen_cons, segslen_app. cbn [segslen fold_right seglen].
        rewrite Hfin. cbn [cpp_dec_fields]. f_equal. f_equal. unfold o'. lia.
      + pose proof (segslen_nonneg _ B1). unfold o'. lia.
      + rewrite Hfin. rewrite Hlen, Hrest, len_zeros by lia. unfold o'. rewrite HlB. lia.
    - (* a member followed by g *)
      destruct vr as [|w wr]; [inversion H2r|].
      assert (Hwg : wt_field wt g w = true) by (inversion H2r; assumption).
      assert (H2r' : Forall2 (fun f v => wt_field wt f v = true) r' wr) by (inversion H2r; assumption).
      assert (Hlr' : legal_fields legal (pre_fs ++ [f]) (g :: r') = true).
      { cbn [legal_fields] in Hl. apply andb_prop in Hl. apply Hl. }
      assert (Har' : Forall (fun f => pc_align (snd f) = align (snd f)) (g :: r')).
      { apply Forall_forall. intros y Hy. rewrite Forall_forall in Hbr. apply (Hbr y Hy). }
      assert (Esp : pm_splits m = ends_block f) by (apply pc_member_splits; [assumption|left; assumption]).
      rewrite Esp.
      destruct (partial_head (pre_fs ++ [f]) g r' (ends_block f) Hlr' Har') as [Eparg _]. cbn zeta in Eparg.
      destruct (walk_step pre_fs f g r' after bs (len pre) B v Hl Hboth Hwf Hinv0) as [Hpad Hnext]. cbn zeta in Hpad, Hnext.
      fold m in Hpad, Hnext. fold m' in Hpad, Hnext. fold a in Hpad, Hnext. fold p0 in Hpad, Hnext.
      rewrite <- Hl1 in Hpad, Hnext. fold o' in Hpad, Hnext.
      set (mg := pc_member pc_size pc_align pc_kind g) in *.
      set (mg' := if ends_block f then pm_set_align mg (Z.max (pm_align mg) (pc_part_max (mg :: pcms r'))) else mg) in *.
      set (ag := if ends_block f then blockal (g :: r') else falign align g) in *.
      set (bs1 := bs + (pm_size m' + pc_member_padding (pm_align m') bs)) in *.
      set (pf := if pm_member_dynamic m' && (pm_align m' <? pm_align mg') then - pm_align mg' else pc_member_padding (pm_align mg') bs1) in *.
      rewrite Eparg, walk_cons. cbn [app].
      change (m :: pcms (g :: r')) with (m :: mg :: pcms r').
      rewrite cpp_dec_fields_cons. change (mg :: pcms r') with (pcms (g :: r')).
      fold mg'. fold bs1. fold pf.
      rewrite Hbody. cbn [cbind fst snd].
      assert (Hago : okal ag) by (unfold ag; destruct (ends_block f); [apply blockal_ok|apply falign_ok]).
      assert (Epn : padn pf o' = pad ag o') by exact Hpad.
      assert (Hpfo : pf < 0 -> okal (- pf)).
      { unfold pf. destruct (pm_member_dynamic m' && (pm_align m' <? pm_align mg')); intros Hneg.
        - rewrite Z.opp_involutive. destruct (partial_head (pre_fs ++ [f]) g r' (ends_block f) Hlr' Har') as [_ [Ealg _]]. cbn zeta in Ealg.
          fold mg in Ealg. fold mg' in Ealg. rewrite Ealg. exact Hago.
        - destruct (partial_head (pre_fs ++ [f]) g r' (ends_block f) Hlr' Har') as [_ [Ealg _]]. cbn zeta in Ealg.
          fold mg in Ealg. fold mg' in Ealg. rewrite Ealg in Hneg. rewrite pc_member_padding_spec in Hneg by exact Hago.
          pose proof (pad_nonneg ag bs1 Hago). fold ag in Hneg. lia. }
      assert (Hrest : exists R2, rest = zeros (pad ag o') ++ R2).
      { eexists. unfold rest. cbn [lay_fields]. fold ag. rewrite render_pad_cons. reflexivity. }
      destruct Hrest as [R2 Hrest]. pose proof (len_nonneg R2) as HR2.
      pose proof (pad_nonneg ag o' Hago) as Hpg.
      pose proof (segslen_nonneg _ B1) as HB0.
      rewrite pad_stmt_rt; [| |exact Hpfo|].
      2:{ unfold o'. lia. }
      2:{ rewrite Epn, Hlen, Hrest, len_app, len_zeros by lia. unfold o'. rewrite HlB. lia. }
      cbn [cbind]. rewrite Epn.
      set (pre2 := pre1 ++ Bd).
      assert (Hl2 : len pre2 = o') by (unfold pre2, o'; rewrite len_app, HlB; reflexivity).
      assert (Hhh' : HHc all_vs (length (decoded ++ [v])) (g :: r') (w :: wr)).
      { intros j h u Hh Hu s Hs. destruct (Hhh (S j) h u Hh Hu s Hs) as [xs [Ev [Hn Hlt]]].
        exists xs. repeat split; auto. rewrite app_length. cbn [length]. lia. }
      assert (Hhs' : HSc (pre_fs ++ f :: g :: r') (length (decoded ++ [v])) (g :: r') (w :: wr)).
      { intros j h u Hh Hu Ek Es. rewrite app_length in Es. cbn [length] in Es.
        replace (length decoded + 1 + j)%nat with (length decoded + S j)%nat in Es by lia.
        destruct (Hhs (S j) h u Hh Hu Ek Es) as [k [n [Ef [Ev [Hr [Hn0 [Hmax [j' [g' [xs [Hj' [Hg' [Hxs [Hsz Hlx]]]]]]]]]]]]]].
        exists k, n. rewrite app_length. cbn [length]. replace (length decoded + 1 + j)%nat with (length decoded + S j)%nat by lia.
        repeat split; try assumption. destruct j' as [|j']; [lia|]. exists j', g', xs. repeat split; try assumption. lia. }
      assert (Hall' : all_vs = (decoded ++ [v]) ++ w :: wr) by (rewrite Hall, <- app_assoc; reflexivity).
      assert (Hinv' : if ends_block f then True else
                okal (if after then blockal (f :: g :: r') else B) /\ blockal (g :: r') <= (if after then blockal (f :: g :: r') else B) /\
                (bs1 - len pre2) mod (if after then blockal (f :: g :: r') else B) = 0).
      { rewrite Hl2. destruct (ends_block f); [exact I|exact Hnext]. }
      cbn [fields_end] in Hfin.
      specialize (IH (pre_fs ++ [f]) ltac:(rewrite <- app_assoc; reflexivity) Hlr' (w :: wr) H2r HPr Hbr Hnur ltac:(discriminate)
                     (decoded ++ [v]) m' (ends_block f) bs1 (if after then blockal (f :: g :: r') else B) x pre2 post).
      rewrite !app_length in IH. cbn [length] in IH.
      replace (length decoded + 1)%nat with (S (length decoded)) in IH by lia.
      rewrite Hl2 in IH. cbn [hd] in IH. fold ag in IH.
      rewrite Eparg, walk_cons in IH. cbn [tl] in IH. fold mg' in IH.
      rewrite IH.
      + rewrite <- app_assoc. cbn [app]. f_equal. f_equal.
        rewrite segslen_cons, segslen_app. cbn [seglen]. fold o'. lia.
      + lia.
      + exact Hall'.
      + rewrite app_length in Hhh'. cbn [length] in Hhh'. replace (length decoded + 1)%nat with (S (length decoded)) in Hhh' by lia. exact Hhh'.
      + rewrite app_length in Hhs'. cbn [length] in Hhs'. replace (length decoded + 1)%nat with (S (length decoded)) in Hhs' by lia. exact Hhs'.
      + rewrite <- Hl2. exact Hinv'.
      + exact Hxo.
      + exact Hfin.
      + rewrite Hd. fold rest. unfold pre2, pre1. rewrite <- !app_assoc. reflexivity.
  Qed.
End RTF.

(* ---- the last padding prophyc assigns brings the cursor to the aligned end of the struct ---- *)
Lemma struct_paddings fs vs o : legal (TStruct fs) = true -> Forall2 (fun f v => wt_field wt f v = true) fs vs ->
  o mod salign align fs = 0 ->
  exists m0 plast,
    pc_paddings fs = tl (fst (fst (pc_walk m0 (pc_partial (pcms fs) false) 0))) ++ [plast] /\
    (plast < 0 -> okal (- plast)) /\
    padn plast (fields_end fs vs false o) = pad (salign align fs) (fields_end fs vs false o).
Proof.
  intros Hl0 H2 Ho. pose proof Hl0 as Hl. apply legal_struct in Hl. destruct Hl as [Hne Hok].
  assert (Hboth : Forall (fun f => pc_align (snd f) = align (snd f) /\ pc_size (snd f) = size (snd f)) fs).
  { rewrite Forall_forall in *. intros f Hf. destruct (Hok f Hf) as [Hlf _]. apply (pc_layout_eq (snd f) Hlf). }
  assert (Ha : Forall (fun f => pc_align (snd f) = align (snd f)) fs).
  { apply Forall_forall. intros y Hy. rewrite Forall_forall in Hboth. apply (Hboth y Hy). }
  destruct (paddings_ok fs Hl0) as [Hpso _].
  unfold pc_paddings, pc_struct_layout in *. fold (pcms fs) in *.
  destruct fs as [|f0 r0]; [congruence|]. cbn [legal] in Hl0.
  destruct (pc_partial (pcms (f0 :: r0)) false) as [|m0 ms] eqn:Ep; [discriminate Ep|]. rewrite <- Ep in *. cbn zeta in *.
  destruct (pc_walk m0 (pc_partial (pcms (f0 :: r0)) false) 0) as [[ps lastm] bs] eqn:Ew. cbn [snd fst] in *.
  assert (Elm : lastm = snd (fst (pc_walk m0 (pc_partial (pcms (f0 :: r0)) false) 0))) by (rewrite Ew; reflexivity).
  assert (Ebs : bs = snd (pc_walk m0 (pc_partial (pcms (f0 :: r0)) false) 0)) by (rewrite Ew; reflexivity).
  set (alignment := pc_max_align (pc_partial (pcms (f0 :: r0)) false)) in *.
  assert (Ealn : alignment = salign align (f0 :: r0)).
  { unfold alignment. destruct (amax_pcms (f0 :: r0) Hok Ha) as [_ A2].
    rewrite pc_max_align_amax, amax_partial, A2 by (apply partial_align_ge, pcms_align_ge; assumption). reflexivity. }
  set (plast := if existsb pm_member_dynamic (pc_partial (pcms (f0 :: r0)) false)
                then (if (pm_align lastm <? alignment) || pm_optional lastm then - alignment else 0)
                else pc_final_padding alignment bs) in *.
  exists m0, plast. rewrite Ew. cbn [fst]. split; [reflexivity|].
  pose proof (salign_ok (f0 :: r0)) as Hsa.
  split.
  { apply Forall_app in Hpso. destruct Hpso as [_ Hl1]. inversion Hl1 as [|? ? Hx _]. exact Hx. }
  set (e := fields_end (f0 :: r0) vs false o).
  destruct (walk_last (f0 :: r0) [] Hl0 Ha ltac:(discriminate) m0 false 0) as [W1 [W2 W3]].
  rewrite <- Elm in W1, W2, W3.
  assert (Wal : pm_align lastm = falign align (last (f0 :: r0) (FPlain, TByte))).
  { destruct r0 as [|g r']; [exact W2|exact W1]. }
  clear W1 W2. unfold padn, plast. rewrite (dynamic_exists (f0 :: r0) [] false Hl0 Ha), Ealn, Wal, W3.
  change (fkind * ty)%type with field in *.
  remember (last (f0 :: r0) (FPlain, TByte)) as l eqn:El.
  destruct (existsb ends_block (f0 :: r0)) eqn:Edy.
  - destruct ((falign align l <? salign align (f0 :: r0)) || match fst l with FOpt => true | _ => false end) eqn:Ec.
    + assert (E : (- salign align (f0 :: r0) <? 0) = true) by (apply okal_pos in Hsa; lia). rewrite E.
      rewrite Z.opp_involutive, cpp_align_spec by exact Hsa. lia.
    + apply orb_false_iff in Ec. destruct Ec as [Ec1 Ec2]. change (0 <? 0) with false. cbn iota.
      assert (Hno : fst (last (f0 :: r0) (FPlain, TByte)) <> FOpt) by (rewrite <- El; intros E; rewrite E in Ec2; discriminate).
      pose proof (fields_end_mod (f0 :: r0) Hok ltac:(discriminate) vs H2 false o Hno) as Hm. rewrite <- El in Hm. fold e in Hm.
      assert (Hle : falign align l <= salign align (f0 :: r0)) by (apply falign_le_salign; rewrite El; apply last_in; discriminate).
      assert (Eeq : falign align l = salign align (f0 :: r0)) by lia.
      rewrite Eeq in Hm. symmetry. apply pad_zero; assumption.
  - pose proof (static_all _ Edy) as Hst.
    rewrite pc_final_padding_spec by exact Hsa.
    pose proof (pad_nonneg (salign align (f0 :: r0)) bs Hsa) as Hnn.
    assert (E : (pad (salign align (f0 :: r0)) bs <? 0) = false) by lia. rewrite E.
    rewrite Ebs, (sz_fields_walk [] (f0 :: r0) Hl0 Hboth).
    unfold e. rewrite (fields_end_static (f0 :: r0) Hok Hst vs H2 o).
    replace o with (0 + o) at 1 by lia. rewrite (sz_fields_shift (f0 :: r0) Hst 0 o Ho).
    rewrite (pad_shift' _ o _ Hsa Ho). reflexivity.
Qed.

Lemma maxn_cases all_fs i : maxn_of all_fs i = 2 ^ 64 - 1 \/
  exists g, In g all_fs /\ fst g = FLimited (maxn_of all_fs i) i.
Proof.
  unfold maxn_of. induction all_fs as [|g r IH]; cbn [fold_right]; [left; reflexivity|].
  destruct (fst g) eqn:Eg; try (destruct IH as [IH|[h [Hin Hh]]]; [left; exact IH|right; exists h; split; [right; exact Hin|exact Hh]]).
  destruct (Nat.eqb s i) eqn:Es.
  - apply Nat.eqb_eq in Es. subst s. right. exists g. split; [left; reflexivity|exact Eg].
  - destruct IH as [IH|[h [Hin Hh]]]; [left; exact IH|right; exists h; split; [right; exact Hin|exact Hh]].
Qed.

Lemma cpp_arm_rt e data decV arms : nodupZ (map fst arms) = true ->
  forall i k a pos r, nth_error arms i = Some a ->
  cpp_dec_obj e data decV (snd a) pos = CTrue r ->
  cpp_dec_arm e data decV arms k (fst a) pos = CTrue (VUnion (k + i) (fst r)).
Proof.
  induction arms as [|b rest IH]; intros Hnd i k a pos r Hn Hb; [destruct i; discriminate|].
  cbn [map] in Hnd. apply nodupZ_notin in Hnd. destruct Hnd as [Hnotin Hnd].
  destruct i as [|i]; cbn in Hn.
  - injection Hn as ->. cbn [cpp_dec_arm]. rewrite Z.eqb_refl, Hb. cbn [cbind]. rewrite Nat.add_0_r. reflexivity.
  - cbn [cpp_dec_arm].
    assert (E : (fst b =? fst a) = false).
    { destruct (fst b =? fst a) eqn:E; [|reflexivity]. exfalso.
      assert (Hin : existsb (Z.eqb (fst b)) (map fst rest) = true).
      { apply existsb_exists. exists (fst a). split; [|exact E]. apply in_map. eapply nth_error_In; exact Hn. }
      congruence. }
    rewrite E. rewrite (IH Hnd i (S k) a pos r Hn Hb). do 2 f_equal. lia.
Qed.

(* ---- C03, decode side ---- *)
Theorem cpp_dec_roundtrip e data fuel : len data < 2 ^ 64 -> forall t, crtP e data fuel t.
Proof.
  intros Hsmall t. induction t as [k| |vals|fs IH|arms IH] using ty_ind'; intros Hl Hc Hu v pre post; try discriminate.
  - (* struct *)
    intros Hd Hw Ha.
    pose proof Hl as Hl0. pose proof Hw as Hw0. apply wt_struct in Hw. destruct Hw as [vs [Ev [H2 Hcnt]]]. subst v.
    apply legal_struct in Hl. destruct Hl as [Hne Hok].
    cbn [layout align] in *. cbn [cpp_dec]. fold (pcms fs).
    assert (Hlf : legal_fields legal [] fs = true) by (cbn [legal] in Hl0; destruct fs; [congruence|exact Hl0]).
    assert (Hboth : Forall (fun f => pc_align (snd f) = align (snd f) /\ pc_size (snd f) = size (snd f)) fs).
    { rewrite Forall_forall in *. intros f Hf. destruct (Hok f Hf) as [Hlf' _]. apply (pc_layout_eq (snd f) Hlf'). }
    assert (Hnu : Forall (fun f => fstiff stiffness f <> Unlimited) fs).
    { cbn [stiffness] in Hu. clear -Hu. induction fs as [|f r IHr]; [constructor|].
      cbn [stiff_fields fold_right] in Hu. constructor.
      - intros E. apply Hu. rewrite E. reflexivity.
      - apply IHr. intros E. apply Hu. unfold stiff_fields in E. rewrite E. destruct (fstiff stiffness f); reflexivity. }
    pose proof (salign_ok fs) as Hsa.
    destruct (struct_paddings fs vs (len pre) Hl0 H2 Ha) as [m0 [plast [Eps [Hxo Hfin]]]].
    rewrite Eps.
    pose proof (cfields_rt e data Hsmall fuel (salign align fs) fs vs Hsa fs [] eq_refl Hlf vs H2 IH Hboth Hnu Hne
                  [] m0 false 0 (salign align fs) plast pre post eq_refl eq_refl) as HF.
    cbn [length app hd] in HF.
    assert (Hof : len pre mod falign align (hd (FPlain, TByte) fs) = 0).
    { destruct fs as [|f0 r0]; [congruence|]. cbn [hd]. apply (mod_down _ (salign align (f0 :: r0))); [apply falign_ok|exact Hsa| |exact Ha].
      rewrite salign_cons. lia. }
    rewrite (pad_zero _ (len pre) ltac:(destruct fs; [congruence|apply falign_ok]) Hof), Z.add_0_r in HF.
    rewrite HF; try assumption.
    + cbn [cbind fst snd app]. reflexivity.
    + (* hints *)
      intros j f v Hf Hv s Hs. cbn [length Nat.add].
      destruct (counts_ok_nth vs fs vs j f v s Hcnt Hf Hv Hs) as [xs [Hn Hx]].
      exists xs. repeat split; auto. pose proof (legal_sizer_lt [] fs j f s Hlf Hf Hs) as Hlt. cbn [length] in Hlt. lia.
    + (* counters *)
      intros j f v Hf Hv Ek Es. cbn [length Nat.add] in Es |- *.
      destruct (sizer_field fs vs j f v Hlf H2 Hcnt Hf Hv Es) as [k [n [Ef [Evn [Hr _]]]]].
      pose proof Es as Es0. unfold is_sizer in Es0. apply existsb_exists in Es0. destruct Es0 as [g [Hin Hb]].
      apply In_nth_error in Hin. destruct Hin as [jj Hjj].
      assert (Hvj : exists w, nth_error vs jj = Some w).
      { clear -H2 Hjj. revert jj Hjj. induction H2 as [|a b r br Hab Hr IHr]; intros [|jj] H; cbn in H; try discriminate; cbn; eauto. }
      destruct Hvj as [w Hw].
      destruct (counts_ok_nth vs fs vs jj g w j Hcnt Hjj Hw (bound_to_sizer j g Hb)) as [xs [Hn Hx]].
      rewrite Hv, Evn in Hn. injection Hn as ->. subst w.
      exists k, (len xs). repeat split; try assumption.
      * apply len_nonneg.
      * (* not above the limit of a limited array it counts *)
        destruct (maxn_cases fs j) as [-> | [h [Hinh Hh]]].
        -- unfold in_range, sk_max in Hr. subst f. cbn [fst snd] in *.
           destruct (legal_sizer [] fs Hlf j Es) as [ts [Hn' Hi]]. cbn [app] in Hn'. rewrite Hf in Hn'. injection Hn' as <-.
           cbn [int_scalar] in Hi. rewrite Hi in Hr.
           destruct k; cbn [sk_signed sk_size] in Hr; cbn in Hr; lia.
        -- apply In_nth_error in Hinh. destruct Hinh as [jh Hjh].
           assert (Hvh : exists u, nth_error vs jh = Some u).
           { clear -H2 Hjh. revert jh Hjh. induction H2 as [|a b r br Hab Hr IHr]; intros [|jh] H; cbn in H; try discriminate; cbn; eauto. }
           destruct Hvh as [u Hu'].
           assert (Hsh : sizer_of (fst h) = Some j) by (rewrite Hh; reflexivity).
           destruct (counts_ok_nth vs fs vs jh h u j Hcnt Hjh Hu' Hsh) as [ys [Hny Hy]].
           rewrite Hv, Evn in Hny. injection Hny as Hny. subst u.
           assert (Hwh : wt_field wt h (VList ys) = true).
           { clear -H2 Hjh Hu'. revert jh Hjh Hu'. induction H2 as [|a b r br Hab Hr IHr]; intros [|jh] H1 H3; cbn in H1, H3; try discriminate.
             - injection H1 as <-. injection H3 as <-. exact Hab.
             - eapply IHr; eassumption. }
           unfold wt_field in Hwh. rewrite Hh in Hwh. apply andb_prop in Hwh. destruct Hwh as [Hle _]. lia.
      * exists jj, g, xs. pose proof (legal_sizer_lt [] fs jj g j Hlf Hjj (bound_to_sizer j g Hb)) as Hlt. cbn [length] in Hlt.
        repeat split; try assumption; try lia. exists j. apply bound_to_sizer. exact Hb.
    + (* alignment invariant *)
      split; [exact Hsa|]. split; [apply blockal_le|]. rewrite Z.sub_0_l.
      pose proof Hsa as Hx. unfold okal in Hx. destruct Hx as [Hx|[Hx|[Hx|Hx]]]; rewrite Hx in *; lia.
  - (* union *)
    intros Hd Hw Ha.
    pose proof Hl as Hl0. apply wt_union in Hw. destruct Hw as [i [x [-> Hw]]]. apply wt_arms_nth in Hw. destruct Hw as [a [Hn Hwa]].
    apply legal_union in Hl. destruct Hl as [_ [Hok Hnd]].
    pose proof (nth_error_In _ _ Hn) as Hin.
    rewrite Forall_forall in Hok, IH. destruct (Hok a Hin) as [Hdr [Hla [Hnba Hfa]]].
    pose proof (ualign_ok arms) as Hua. pose proof (ualign_ge4 arms) as H4.
    cbn [layout align] in *. rewrite (lay_arm_nth arms i x _ a Hn) in *.
    rewrite !render_cons, render_app, render_one in Hd. cbn [render_seg] in Hd. rewrite <- !app_assoc in Hd.
    cbn [cpp_dec]. destruct (pc_layout_eq _ Hl0) as [Eal Esz]. cbn [align] in Eal. rewrite Eal, Esz, pc_disc_size_spec.
    pose proof (len_nonneg pre) as Hpre. pose proof (len_nonneg post) as Hpost.
    set (pre' := pre ++ enc_int e 4 (fst a) ++ zeros (ualign align arms - 4)).
    assert (Hl' : len pre' = len pre + ualign align arms).
    { unfold pre'. rewrite !len_app, len_enc_int, len_zeros by lia. lia. }
    assert (Hoa : len pre' mod align (snd a) = 0).
    { rewrite Hl'. apply (mod_down _ (ualign align arms)); [apply align_ok|assumption|apply arm_le_ualign; assumption|].
      apply add_mod_keep; [assumption|assumption|apply self_mod; assumption]. }
    assert (Hus : stiffness (snd a) <> Unlimited).
    { unfold is_fixed in Hfa. apply stiff_eqb_eq in Hfa. rewrite Hfa. discriminate. }
    destruct (layout_lengths_at (snd a) x (len pre') Hla Hwa Hoa) as [A1 [_ A3]]. specialize (A3 Hfa).
    rewrite <- Hl' in Hd.
    set (tailz := zeros (size (TUnion arms) - ualign align arms - segslen (layout (snd a) x (len pre')))) in *.
    pose proof (arm_le_usize size arms a Hin) as Hle.
    pose proof (pad_nonneg (ualign align arms) (ualign align arms + usize size arms) Hua) as Hp.
    assert (Hsz : size (TUnion arms) = ualign align arms + usize size arms + pad (ualign align arms) (ualign align arms + usize size arms)) by reflexivity.
    assert (Htz : len tailz = size (TUnion arms) - ualign align arms - size (snd a)).
    { unfold tailz. rewrite A3. apply len_zeros. lia. }
    assert (Hlen : len data = len pre + size (TUnion arms) + len post).
    { rewrite Hd. rewrite !len_app, Htz, len_enc_int, len_zeros, len_render by (try assumption; lia). rewrite ?A3. lia. }
    pose proof (usize_nonneg size arms) as Hus0.
    (* the discriminator *)
    assert (Hdisc : cpp_dec_scalar e data (TEnum []) (len pre) = CTrue (VInt (fst a), len pre + 4)).
    { cbn [cpp_dec_scalar]. rewrite pc_enum_size_spec. rewrite (rem_eq e data Hsmall fuel) by lia.
      assert (E : (len data - len pre <? 4) = false) by lia. rewrite E.
      rewrite (load_rt e data fuel 4 (fst a) pre _ Hd ltac:(lia)). cbn [cbind]. change (256 ^ 4) with (2 ^ 32). rewrite Z.mod_small by lia. reflexivity. }
    rewrite Hdisc. cbn [cbind fst snd].
    set (discpad := if 4 <? ualign align arms then ualign align arms - 4 else 0).
    assert (Edp : discpad = ualign align arms - 4) by (unfold discpad; destruct (4 <? ualign align arms) eqn:E; lia).
    assert (Hadv : (if 0 <? discpad then cpp_advance data discpad (len pre + 4) else CTrue (len pre + 4)) = CTrue (len pre')).
    { rewrite Hl'. destruct (0 <? discpad) eqn:E0; [rewrite (advance_rt e data Hsmall fuel) by lia; f_equal; lia|f_equal; lia]. }
    rewrite Hadv. cbn [cbind].
    assert (HB : cpp_dec_obj e data (cpp_dec e data fuel) (snd a) (len pre') = CTrue (x, len pre' + segslen (layout (snd a) x (len pre')))).
    { apply (obj_rt e data Hsmall fuel (snd a) x pre' (tailz ++ post) (IH a Hin) Hla Hnba Hus); try assumption.
      rewrite Hd. unfold pre'. rewrite <- !app_assoc. reflexivity. }
    rewrite (cpp_arm_rt e data (cpp_dec e data fuel) arms Hnd i 0%nat a (len pre') _ Hn HB). cbn [cbind fst Nat.add].
    rewrite (advance_rt e data Hsmall fuel) by lia. cbn [cbind].
    rewrite !segslen_cons, segslen_app, segslen_cons. cbn [seglen segslen fold_right].
    do 2 f_equal. rewrite Hl'. lia.
Qed.

(* message<T>::decode on the canonical encoding *)
Corollary cpp_decode_roundtrip e fs v : legal (TStruct fs) = true -> stiffness (TStruct fs) <> Unlimited ->
  wt (TStruct fs) v = true -> len (wire e (TStruct fs) v) < 2 ^ 64 ->
  cpp_decode e (TStruct fs) (wire e (TStruct fs) v) = CTrue v.
Proof.
  intros Hl Hu Hw Hsmall. unfold cpp_decode.
  pose proof (cpp_dec_roundtrip e (wire e (TStruct fs) v) (S (length (wire e (TStruct fs) v))) Hsmall (TStruct fs) Hl eq_refl Hu v [] []) as H.
  change (len (@nil Z)) with 0 in H. cbn [app] in H.
  rewrite H; try assumption.
  - destruct (layout_lengths (TStruct fs) v Hl Hw) as [L1 _]. unfold wire. rewrite len_render by assumption.
    rewrite Z.add_0_l, Z.eqb_refl. reflexivity.
  - unfold wire. rewrite app_nil_r. reflexivity.
  - reflexivity.
Qed.
