(* proofs/CppDecFacts.v — C07 (model level): the generated C++ decoder, as modelled in CppFull.v, never
   loads outside [data, data + size), never moves its cursor backwards or past the end, and its greedy
   loop terminates — for every schema and every byte string (buffers below 2^64 bytes). *)
From Coq Require Import ZArith List Bool Lia ZifyBool.
From Prophy Require Import Bytes Schema Layout Wire Src PyStatics PyEncode PyDecode PcModel CppFull
  Arith SpecAlign Views SpecLen SrcFacts PyStaticsFacts PyEncodeFacts PyDecodeFacts PcFacts PcRawFacts CppSizeFacts.
Import ListNotations.
Local Open Scope Z_scope.
Ltac Zify.zify_post_hook ::= Z.to_euclidean_division_equations.

(* an acceptable outcome: the cursor moved forward by at least [lo] and stayed inside the buffer *)
Definition cgood {A} (n pos lo : Z) (r : cres (A * Z)) : Prop :=
  match r with CTrue (_, p) => pos + lo <= p <= n | CFalse => True | CCrash => False end.

Lemma cgood_weaken {A} n pos lo lo' (r : cres (A * Z)) : lo' <= lo -> cgood n pos lo r -> cgood n pos lo' r.
Proof. unfold cgood. destruct r as [[a p]| |]; intros; try assumption; lia. Qed.

Section Dec.
  Variable e : endian.
  Variable data : bytes.
  Hypothesis Hsmall : len data < 2 ^ 64.
  Variable decV : ty -> Z -> cres (value * Z).

  Lemma remaining_eq pos : 0 <= pos <= len data -> remaining data pos = len data - pos.
  Proof. intros H. unfold remaining, size_t. apply Z.mod_small. lia. Qed.

  Lemma load_ok w pos : 0 <= pos -> 0 <= w -> pos + w <= len data -> exists u, cpp_load e data w pos = CTrue u.
  Proof.
    intros Hp Hw Hl. unfold cpp_load. assert (E : (0 <=? pos) && (pos + w <=? len data) = true) by lia. rewrite E. eauto.
  Qed.

  Lemma advance_good n pos : 0 <= pos <= len data -> 0 <= n -> cgood (len data) pos n (cbind (cpp_advance data n pos) (fun p => CTrue (tt, p))).
  Proof.
    intros Hp Hn. unfold cpp_advance. rewrite remaining_eq by exact Hp. destruct (len data - pos <? n) eqn:E; cbn [cbind cgood]; [exact I|lia].
  Qed.

  Lemma advance_cases n pos : 0 <= pos <= len data -> 0 <= n ->
    cpp_advance data n pos = CFalse \/ (cpp_advance data n pos = CTrue (pos + n) /\ pos + n <= len data).
  Proof.
    intros Hp Hn. unfold cpp_advance. rewrite remaining_eq by exact Hp. destruct (len data - pos <? n) eqn:E; [left; reflexivity|right; split; [reflexivity|lia]].
  Qed.

  Lemma align_cases a pos : okal a -> 0 <= pos <= len data ->
    cpp_align_to data a pos = CFalse \/ (cpp_align_to data a pos = CTrue (pos + pad a pos) /\ pos + pad a pos <= len data).
  Proof.
    intros Ha Hp. unfold cpp_align_to. rewrite cpp_align_spec by exact Ha.
    destruct (len data <? pos + pad a pos) eqn:E; [left; reflexivity|right; split; [reflexivity|lia]].
  Qed.

  Lemma dec_scalar_good t pos : 0 <= pos <= len data -> PyDecode.is_comp t = false ->
    cgood (len data) pos 1 (cpp_dec_scalar e data t pos).
  Proof.
    intros Hp Hc. destruct t as [k| |vals|fs|arms]; try discriminate; cbn [cpp_dec_scalar].
    - rewrite remaining_eq by exact Hp. rewrite pc_builtin_size_spec. pose proof (sk_size_pos k) as Hk.
      destruct (len data - pos <? sk_size k) eqn:E; [exact I|].
      destruct (load_ok (sk_size k) pos ltac:(lia) ltac:(lia) ltac:(lia)) as [u ->]. cbn [cbind cgood]. lia.
    - rewrite remaining_eq by exact Hp. rewrite pc_byte_size_spec.
      destruct (len data - pos <? 1) eqn:E; [exact I|].
      destruct (load_ok 1 pos ltac:(lia) ltac:(lia) ltac:(lia)) as [u ->]. cbn [cbind cgood]. lia.
    - rewrite remaining_eq by exact Hp. rewrite pc_enum_size_spec.
      destruct (len data - pos <? 4) eqn:E; [exact I|].
      destruct (load_ok 4 pos ltac:(lia) ltac:(lia) ltac:(lia)) as [u ->]. cbn [cbind cgood]. lia.
  Qed.

  (* what the induction hypothesis says about composite element/member/arm types *)
  Definition safeP (t : ty) : Prop :=
    legal t = true -> PyDecode.is_comp t = true -> forall pos, 0 <= pos <= len data ->
    cgood (len data) pos (if stiff_eqb (stiffness t) Unlimited then 0 else 1) (decV t pos).

  Lemma dec_obj_good t pos : safeP t -> legal t = true -> not_byte t = true -> 0 <= pos <= len data ->
    cgood (len data) pos (if stiff_eqb (stiffness t) Unlimited then 0 else 1) (cpp_dec_obj e data decV t pos).
  Proof.
    intros HP Hl Hb Hp. destruct t as [k| |vals|fs|arms]; try discriminate; cbn [cpp_dec_obj].
    - apply (cgood_weaken _ _ 1); [cbn; lia|]. apply dec_scalar_good; [exact Hp|reflexivity].
    - apply (cgood_weaken _ _ 1); [cbn; lia|]. apply dec_scalar_good; [exact Hp|reflexivity].
    - apply HP; try assumption; reflexivity.
    - apply HP; try assumption; reflexivity.
  Qed.

  Lemma elem_size_pos t : legal t = true -> PyDecode.is_comp t = false -> 0 < cpp_elem_size t.
  Proof.
    intros Hl Hc. destruct t as [k| |vals|fs|arms]; try discriminate; cbn [cpp_elem_size].
    - cbn [pc_size]. rewrite pc_builtin_size_spec. apply sk_size_pos.
    - rewrite pc_byte_size_spec. lia.
    - rewrite pc_enum_size_spec. lia.
  Qed.

  Lemma elem_size_nonneg t : legal t = true -> 0 <= cpp_elem_size t.
  Proof.
    intros Hl. destruct t as [k| |vals|fs|arms]; cbn [cpp_elem_size].
    - cbn [pc_size]. rewrite pc_builtin_size_spec. pose proof (sk_size_pos k). lia.
    - rewrite pc_byte_size_spec. lia.
    - rewrite pc_enum_size_spec. lia.
    - destruct (pc_layout_eq _ Hl) as [_ ->]. apply size_nonneg. exact Hl.
    - destruct (pc_layout_eq _ Hl) as [_ ->]. apply size_nonneg. exact Hl.
  Qed.

  (* the element loop: scalars after the single test of n * sizeof(T), composites one by one *)
  Lemma dec_loop_scalar t : PyDecode.is_comp t = false -> legal t = true ->
    forall n pos, 0 <= pos -> pos + Z.of_nat n * cpp_elem_size t <= len data ->
    exists vs, cpp_dec_loop e data decV t n pos = CTrue (vs, pos + Z.of_nat n * cpp_elem_size t).
  Proof.
    intros Hc Hl. pose proof (elem_size_pos t Hl Hc) as Hw.
    induction n as [|m IH]; intros pos Hp Hle; cbn [cpp_dec_loop].
    - exists []. f_equal. f_equal. lia.
    - destruct t as [k| |vals|fs|arms]; try discriminate.
      + cbn [cpp_elem_size pc_size] in *.
        destruct (load_ok (pc_builtin_size k) pos Hp ltac:(lia) ltac:(lia)) as [u ->]. cbn [cbind fst snd].
        destruct (IH (pos + pc_builtin_size k) ltac:(lia) ltac:(lia)) as [vs ->]. cbn [cbind fst snd]. eexists. f_equal. f_equal. lia.
      + destruct (load_ok (cpp_elem_size TByte) pos Hp ltac:(lia) ltac:(lia)) as [u ->]. cbn [cbind fst snd].
        destruct (IH (pos + cpp_elem_size TByte) ltac:(lia) ltac:(lia)) as [vs ->]. cbn [cbind fst snd]. eexists. f_equal. f_equal. lia.
      + destruct (load_ok (cpp_elem_size (TEnum vals)) pos Hp ltac:(lia) ltac:(lia)) as [u ->]. cbn [cbind fst snd].
        destruct (IH (pos + cpp_elem_size (TEnum vals)) ltac:(lia) ltac:(lia)) as [vs ->]. cbn [cbind fst snd]. eexists. f_equal. f_equal. lia.
  Qed.

  Lemma dec_loop_comp t : PyDecode.is_comp t = true -> safeP t -> legal t = true -> stiffness t <> Unlimited ->
    forall n pos, 0 <= pos <= len data -> cgood (len data) pos (Z.of_nat n) (cpp_dec_loop e data decV t n pos).
  Proof.
    intros Hc HP Hl Hu. assert (Es : stiff_eqb (stiffness t) Unlimited = false) by (apply stiff_eqb_neq; exact Hu).
    assert (Hstep : forall m pos, cpp_dec_loop e data decV t (S m) pos =
              cbind (decV t pos) (fun r => cbind (cpp_dec_loop e data decV t m (snd r)) (fun rs => CTrue (fst r :: fst rs, snd rs)))).
    { intros m pos. destruct t; try discriminate; reflexivity. }
    induction n as [|m IH]; intros pos Hp; [cbn; lia|]. rewrite Hstep.
    pose proof (HP Hl Hc pos Hp) as H1. rewrite Es in H1.
    destruct (decV t pos) as [[v p]| |]; cbn [cgood] in H1; try contradiction; try exact I. cbn [cbind fst snd].
    assert (Hp' : 0 <= p <= len data) by lia. specialize (IH p Hp').
    destruct (cpp_dec_loop e data decV t m p) as [[vs q]| |]; cbn [cgood] in IH; try contradiction; try exact I.
    cbn [cbind cgood fst snd]. lia.
  Qed.

  Lemma dec_n_good t n pos : safeP t -> legal t = true -> stiffness t <> Unlimited -> 0 <= n -> 0 <= pos <= len data ->
    cgood (len data) pos (if PyDecode.is_comp t then n else n * cpp_elem_size t) (cpp_dec_n e data decV t n pos).
  Proof.
    intros HP Hl Hu Hn Hp. unfold cpp_dec_n.
    destruct t as [k| |vals|fs|arms].
    1,2,3: cbn [PyDecode.is_comp]; rewrite remaining_eq by exact Hp;
      match goal with |- context [cpp_elem_size ?t] => pose proof (elem_size_pos t Hl eq_refl) as Hw; set (w := cpp_elem_size t) in * end;
      destruct (len data - pos <? n * w) eqn:E; [exact I|];
      match goal with |- context [cpp_dec_loop e data decV ?t _ _] =>
        destruct (dec_loop_scalar t eq_refl Hl (Z.to_nat n) pos ltac:(lia) ltac:(fold w; rewrite Z2Nat.id by lia; lia)) as [vs ->] end;
      fold w; rewrite Z2Nat.id by lia; cbn [cgood]; lia.
    - pose proof (dec_loop_comp (TStruct fs) eq_refl HP Hl Hu (Z.to_nat n) pos Hp) as H. rewrite Z2Nat.id in H by lia. exact H.
    - pose proof (dec_loop_comp (TUnion arms) eq_refl HP Hl Hu (Z.to_nat n) pos Hp) as H. rewrite Z2Nat.id in H by lia. exact H.
  Qed.

  (* decoder_greedy<E, T, true>: terminates within the fuel, never crashes *)
  Lemma dec_greedy_good t : safeP t -> legal t = true -> PyDecode.is_comp t = true -> stiffness t <> Unlimited ->
    forall fuel pos, 0 <= pos <= len data -> Z.of_nat fuel + pos > len data ->
    cgood (len data) pos 0 (cpp_dec_greedy_dyn decV t fuel pos).
  Proof.
    intros HP Hl Hc Hu. assert (Es : stiff_eqb (stiffness t) Unlimited = false) by (apply stiff_eqb_neq; exact Hu).
    induction fuel as [|f IH]; intros pos Hp Hf; [lia|]. cbn [cpp_dec_greedy_dyn].
    pose proof (HP Hl Hc pos Hp) as H1. rewrite Es in H1.
    destruct (decV t pos) as [[v p]| |]; cbn [cgood] in H1; try contradiction.
    - cbn [cbind fst snd]. specialize (IH p ltac:(lia) ltac:(lia)).
      destruct (cpp_dec_greedy_dyn decV t f p) as [[vs q]| |]; cbn [cgood] in IH; try contradiction; try exact I.
      cbn [cbind cgood fst snd]. lia.
    - cbn [cgood]. lia.
  Qed.

  (* sizes the arrays were resized to: never more than the bytes that were left *)
  Definition cinv (fs : list field) (decoded : list value) : Prop :=
    forall s, is_sizer fs s = true -> (s < length decoded)%nat ->
      exists n, nth_error decoded s = Some (VInt n) /\ 0 <= n <= len data.

  Definition cgood_member (fs : list field) (i : nat) (f : field) (pos : Z) (r : cres (value * Z)) : Prop :=
    match r with
    | CTrue (v, p) => pos + flo f <= p <= len data /\
        (is_sizer fs i = true -> fst f = FPlain -> exists n, v = VInt n /\ 0 <= n <= len data)
    | CFalse => True
    | CCrash => False
    end.

  Lemma cgood_to_member fs i f pos (r : cres (value * Z)) :
    cgood (len data) pos (flo f) r -> (is_sizer fs i = true -> fst f = FPlain -> False) -> cgood_member fs i f pos r.
  Proof.
    unfold cgood, cgood_member. destruct r as [[v p]| |]; intros H Hs; try assumption.
    split; [exact H|]. intros A B. destruct (Hs A B).
  Qed.

  Lemma size_t_range z : 0 <= size_t z < 2 ^ 64.
  Proof. unfold size_t. apply Z.mod_pos_bound. lia. Qed.

  Lemma dec_member_good fuel all_fs decoded i f pos :
    safeP (snd f) -> fok f -> pc_align (snd f) = align (snd f) -> pc_size (snd f) = size (snd f) ->
    0 <= pos <= len data -> Z.of_nat fuel > len data ->
    cinv all_fs decoded ->
    (forall s, sizer_of (fst f) = Some s -> (s < length decoded)%nat /\ is_sizer all_fs s = true) ->
    (fst f = FPlain -> is_sizer all_fs i = true -> exists k, snd f = TScalar k) ->
    cgood_member all_fs i f pos (cpp_dec_member e data decV fuel all_fs decoded i f (pc_member pc_size pc_align pc_kind f) pos).
  Proof.
    intros HP Hok Hal Hsz Hp Hfuel Hinv Hsr Hsc. pose proof Hok as [Hl Hk].
    assert (Hsized : forall s, sizer_of (fst f) = Some s -> exists n, nth_error decoded s = Some (VInt n) /\ 0 <= n <= len data).
    { intros s Hs. destruct (Hsr s Hs) as [Hlt Hss]. apply (Hinv s Hss Hlt). }
    pose proof (pc_member_size f Hok Hal Hsz) as Hms.
    pose proof (pc_member_facts pc_size f Hok Hal) as Hma.
    unfold cpp_dec_member. cbn zeta.
    destruct (fst f) as [| |m|s|m s|] eqn:Ek.
    - (* plain *)
      destruct (is_sizer all_fs i) eqn:Es.
      + destruct (Hsc eq_refl eq_refl) as [k Et]. rewrite Et.
        pose proof (dec_scalar_good (TScalar k) pos Hp eq_refl) as H1.
        destruct (cpp_dec_scalar e data (TScalar k) pos) as [[v p]| |]; cbn [cgood] in H1; try contradiction; try exact I.
        cbn [cbind fst snd]. pose proof (size_t_range (match v with VInt z => z | _ => 0 end)) as Hn.
        destruct (_ <? size_t _); [exact I|].
        rewrite remaining_eq by lia.
        destruct (len data - p <? size_t _) eqn:E2; [exact I|]. cbn [cgood_member].
        split; [unfold flo; rewrite Ek, Et; cbn; lia|]. intros _ _. eexists. split; [reflexivity|]. lia.
      + apply cgood_to_member; [|intros A; rewrite Es in A; discriminate A]. unfold flo. rewrite Ek.
        apply dec_obj_good; assumption.
    - (* optional *)
      destruct Hk as [Hnb Hfx]. apply cgood_to_member; [|intros _ B; rewrite Ek in B; discriminate B]. unfold flo. rewrite Ek.
      pose proof (dec_scalar_good (TScalar U32) pos Hp eq_refl) as H1.
      destruct (cpp_dec_scalar e data (TScalar U32) pos) as [[d p]| |]; cbn [cgood] in H1; try contradiction; try exact I.
      cbn [cbind fst snd].
      assert (Hp1 : 0 <= p <= len data) by lia.
      assert (Hadv : forall q, (if 4 <? falign align f then cpp_advance data (falign align f - 4) p else CTrue p) = CTrue q -> p <= q <= len data).
      { intros q. destruct (4 <? falign align f) eqn:E4.
        - destruct (advance_cases (falign align f - 4) p Hp1 ltac:(lia)) as [-> | [-> Hle]]; [discriminate|]. intros H. injection H as <-. lia.
        - intros H. injection H as <-. lia. }
      rewrite Hma.
      destruct (if 4 <? falign align f then cpp_advance data (falign align f - 4) p else CTrue p) as [q| |] eqn:Eq.
      2:{ exact I. }
      2:{ destruct (4 <? falign align f) eqn:E4; [|discriminate]. destruct (advance_cases (falign align f - 4) p Hp1 ltac:(lia)) as [E | [E _]]; rewrite E in Eq; discriminate. }
      specialize (Hadv q eq_refl). cbn [cbind].
      destruct (_ =? 0).
      + pose proof (elem_size_nonneg (snd f) Hl) as Hes.
        destruct (advance_cases (cpp_elem_size (snd f)) q ltac:(lia) Hes) as [-> | [-> Hle]]; [exact I|]. cbn [cbind cgood]. lia.
      + pose proof (dec_obj_good (snd f) q HP Hl Hnb ltac:(lia)) as H2.
        destruct (cpp_dec_obj e data decV (snd f) q) as [[x c]| |]; cbn [cgood] in H2; try contradiction; try exact I.
        cbn [cbind cgood fst snd]. destruct (stiff_eqb _ _); lia.
    - (* fixed array *)
      destruct Hk as [Hm Hfx]. apply cgood_to_member; [|intros _ B; rewrite Ek in B; discriminate B]. unfold flo. rewrite Ek.
      assert (Hu : stiffness (snd f) <> Unlimited) by (unfold is_fixed in Hfx; apply stiff_eqb_eq in Hfx; rewrite Hfx; discriminate).
      pose proof (dec_n_good (snd f) m pos HP Hl Hu ltac:(lia) Hp) as H1.
      destruct (cpp_dec_n e data decV (snd f) m pos) as [[vs p]| |]; cbn [cgood] in H1; try contradiction; try exact I.
      cbn [cbind cgood fst snd].
      destruct (PyDecode.is_comp (snd f)) eqn:Ec; [lia|].
      pose proof (elem_size_pos (snd f) Hl Ec). nia.
    - (* bound array *)
      apply cgood_to_member; [|intros _ B; rewrite Ek in B; discriminate B]. unfold flo. rewrite Ek.
      destruct (Hsized s eq_refl) as [n [-> Hn]]. cbn [cbind].
      pose proof (dec_n_good (snd f) n pos HP Hl Hk ltac:(lia) Hp) as H1.
      destruct (cpp_dec_n e data decV (snd f) n pos) as [[vs p]| |]; cbn [cgood] in H1; try contradiction; try exact I.
      cbn [cbind cgood fst snd].
      destruct (PyDecode.is_comp (snd f)) eqn:Ec; [lia|]. pose proof (elem_size_pos (snd f) Hl Ec). nia.
    - (* limited array *)
      destruct Hk as [Hm Hfx]. apply cgood_to_member; [|intros _ B; rewrite Ek in B; discriminate B]. unfold flo. rewrite Ek.
      assert (Hu : stiffness (snd f) <> Unlimited) by (unfold is_fixed in Hfx; apply stiff_eqb_eq in Hfx; rewrite Hfx; discriminate).
      destruct (Hsized s eq_refl) as [n [-> Hn]]. cbn [cbind].
      pose proof (dec_n_good (snd f) n pos HP Hl Hu ltac:(lia) Hp) as H1.
      destruct (cpp_dec_n e data decV (snd f) n pos) as [[vs p]| |]; cbn [cgood] in H1; try contradiction; try exact I.
      cbn [cbind fst snd].
      assert (Hps : 0 <= pm_size (pc_member pc_size pc_align pc_kind f)).
      { rewrite Hms. unfold fsize. rewrite Ek. pose proof (size_nonneg _ Hl). nia. }
      destruct (advance_cases _ pos Hp Hps) as [-> | [-> Hle]]; [exact I|]. cbn [cbind cgood]. lia.
    - (* greedy array *)
      apply cgood_to_member; [|intros _ B; rewrite Ek in B; discriminate B]. unfold flo. rewrite Ek.
      pose proof (size_t_range (len data - pos)) as Hr. fold (remaining data pos) in Hr.
      destruct (snd f) eqn:Et.
      1,2,3: rewrite <- Et in *;
        (assert (Ec : PyDecode.is_comp (snd f) = false) by (rewrite Et; reflexivity));
        pose proof (elem_size_pos (snd f) Hl Ec) as Hw;
        (assert (Hq : 0 <= remaining data pos / cpp_elem_size (snd f)) by (apply Z.div_pos; lia));
        pose proof (dec_n_good (snd f) _ pos HP Hl Hk Hq Hp) as H1;
        (destruct (cpp_dec_n e data decV (snd f) _ pos) as [[vs p]| |]; cbn [cgood] in H1; try contradiction; try exact I);
        cbn [cbind cgood fst snd]; rewrite Ec in H1; nia.
      all: rewrite <- Et in *;
        (assert (Ec : PyDecode.is_comp (snd f) = true) by (rewrite Et; reflexivity));
        destruct (pc_kind (snd f) =? K_FIXED).
      1,3: (assert (Hq : 0 <= remaining data pos / pc_size (snd f)) by (rewrite Hsz; pose proof (size_nonneg _ Hl); destruct (Z.eq_dec (size (snd f)) 0) as [E0|E0]; [rewrite E0, Zdiv_0_r; lia|apply Z.div_pos; lia]));
        pose proof (dec_n_good (snd f) _ pos HP Hl Hk Hq Hp) as H1;
        (destruct (cpp_dec_n e data decV (snd f) _ pos) as [[vs p]| |]; cbn [cgood] in H1; try contradiction; try exact I);
        cbn [cbind cgood fst snd]; rewrite Ec in H1; lia.
      all: pose proof (dec_greedy_good (snd f) HP Hl Ec Hk fuel pos Hp ltac:(lia)) as H1;
        (destruct (cpp_dec_greedy_dyn decV (snd f) fuel pos) as [[vs p]| |]; cbn [cgood] in H1; try contradiction; try exact I);
        cbn [cbind cgood fst snd]; lia.
  Qed.

  (* the chain of `&&` over the members *)
  Lemma dec_fields_good fuel all_fs : Z.of_nat fuel > len data ->
    (forall i, is_sizer all_fs i = true -> exists k, nth_error all_fs i = Some (FPlain, TScalar k)) ->
    forall fs pre ps, all_fs = pre ++ fs -> legal_fields legal pre fs = true ->
    Forall (fun f => safeP (snd f)) fs ->
    Forall (fun f => pc_align (snd f) = align (snd f) /\ pc_size (snd f) = size (snd f)) fs ->
    Forall (fun p => p < 0 -> okal (- p)) ps ->
    forall decoded pos, length decoded = length pre -> cinv all_fs decoded -> 0 <= pos <= len data ->
    match cpp_dec_fields e data decV fuel all_fs fs (pcms fs) ps (length pre) decoded pos with
    | CTrue (vs, p) => pos + match fs, ps with f :: _, _ :: _ => flo f | _, _ => 0 end <= p <= len data
    | CFalse => True
    | CCrash => False
    end.
  Proof.
    intros Hfuel Hsizers fs. induction fs as [|f r IH]; intros pre ps Eall Hl HIH Hboth Hps decoded pos Hdec Hinv Hp.
    - cbn [pcms map cpp_dec_fields]. lia.
    - destruct ps as [|p pr]; [cbn [pcms map cpp_dec_fields]; lia|].
      inversion HIH as [|? ? HPf HIHr]; subst. inversion Hboth as [|? ? [Haf Hsf] Hbr]; subst. inversion Hps as [|? ? Hpp Hpr]; subst.
      pose proof (legal_fields_fok _ _ Hl) as Hok. inversion Hok as [|? ? Hokf Hokr]; subst.
      cbn [legal_fields] in Hl. apply andb_prop in Hl. destruct Hl as [Hlf Hlr].
      assert (Hnth : nth_error (pre ++ f :: r) (length pre) = Some f).
      { rewrite nth_error_app2 by lia. rewrite Nat.sub_diag. reflexivity. }
      assert (Hrefs : forall s, sizer_of (fst f) = Some s -> (s < length decoded)%nat /\ is_sizer (pre ++ f :: r) s = true).
      { intros s Hs. split; [rewrite Hdec; eapply legal_field_sizer_ref; eassumption|].
        unfold is_sizer. rewrite existsb_app. cbn [existsb]. unfold bound_to at 2. rewrite Hs, Nat.eqb_refl.
        rewrite orb_true_r. reflexivity. }
      assert (Hsc : fst f = FPlain -> is_sizer (pre ++ f :: r) (length pre) = true -> exists k, snd f = TScalar k).
      { intros _ Hs. destruct (Hsizers _ Hs) as [k Hk]. rewrite Hnth in Hk. injection Hk as Hk. exists k. rewrite Hk. reflexivity. }
      pose proof (dec_member_good fuel (pre ++ f :: r) decoded (length pre) f pos HPf Hokf Haf Hsf Hp Hfuel Hinv Hrefs Hsc) as HF.
      change (pcms (f :: r)) with (pc_member pc_size pc_align pc_kind f :: pcms r). cbn [cpp_dec_fields].
      destruct (cpp_dec_member e data decV fuel (pre ++ f :: r) decoded (length pre) f (pc_member pc_size pc_align pc_kind f) pos) as [[v q]| |];
        cbn [cgood_member] in HF; try contradiction; try exact I.
      destruct HF as [Hq Hv]. cbn [cbind fst snd].
      assert (Hflo : 0 <= flo f) by (unfold flo; destruct (fst f); try lia; destruct (stiff_eqb _ _); lia).
      (* the padding statement *)
      assert (Hpad : match (if p <? 0 then cpp_align_to data (- p) q else if 0 <? p then cpp_advance data p q else CTrue q) with
                     | CTrue q' => q <= q' <= len data | CFalse => True | CCrash => False end).
      { destruct (p <? 0) eqn:E1.
        - destruct (align_cases (- p) q (Hpp ltac:(lia)) ltac:(lia)) as [-> | [-> Hle]]; [exact I|].
          pose proof (pad_nonneg (- p) q (Hpp ltac:(lia))). lia.
        - destruct (0 <? p) eqn:E2; [|lia].
          destruct (advance_cases p q ltac:(lia) ltac:(lia)) as [-> | [-> Hle]]; [exact I|]. lia. }
      destruct (if p <? 0 then cpp_align_to data (- p) q else if 0 <? p then cpp_advance data p q else CTrue q) as [q'| |];
        try contradiction; try exact I. cbn [cbind].
      specialize (IH (pre ++ [f]) pr ltac:(rewrite <- app_assoc; reflexivity) Hlr HIHr Hbr Hpr (decoded ++ [v]) q').
      rewrite !app_length in IH. cbn [length] in IH. replace (length pre + 1)%nat with (S (length pre)) in IH by lia.
      assert (Hinv' : cinv (pre ++ f :: r) (decoded ++ [v])).
      { intros s Hs Hlt. rewrite app_length in Hlt. cbn [length] in Hlt.
        destruct (Nat.eq_dec s (length decoded)) as [->|Hne].
        - rewrite nth_error_app2 by lia. rewrite Nat.sub_diag. cbn [nth_error].
          rewrite Hdec in Hs. destruct (Hsizers _ Hs) as [k Hk]. rewrite Hnth in Hk. injection Hk as Hk.
          destruct (Hv Hs ltac:(rewrite Hk; reflexivity)) as [z [-> Hz]]. exists z. split; [reflexivity|exact Hz].
        - rewrite nth_error_app1 by lia. apply Hinv; [exact Hs|lia]. }
      specialize (IH ltac:(lia) Hinv' ltac:(lia)).
      destruct (cpp_dec_fields e data decV fuel (pre ++ f :: r) r (pcms r) pr (S (length pre)) (decoded ++ [v]) q') as [[vs endp]| |];
        try contradiction; try exact I.
      assert (0 <= match r, pr with g :: _, _ :: _ => flo g | _, _ => 0 end).
      { destruct r as [|g r']; [lia|]. destruct pr; [lia|]. unfold flo; destruct (fst g); try lia; destruct (stiff_eqb _ _); lia. }
      lia.
  Qed.

  Lemma dec_arm_good arms : Forall (fun a => safeP (snd a)) arms -> Forall aok arms ->
    forall i disc pos, 0 <= pos <= len data ->
    match cpp_dec_arm e data decV arms i disc pos with CCrash => False | _ => True end.
  Proof.
    intros HIH Hok. induction HIH as [|a r Ha Hr IH]; intros i disc pos Hp; cbn [cpp_dec_arm]; [exact I|].
    inversion Hok as [|? ? Hoa Hor]; subst. destruct Hoa as [_ [Hla [Hnb _]]].
    destruct (fst a =? disc); [|apply IH; assumption].
    pose proof (dec_obj_good (snd a) pos Ha Hla Hnb Hp) as H1.
    destruct (cpp_dec_obj e data decV (snd a) pos) as [[v s]| |]; cbn [cgood] in H1; try contradiction; exact I.
  Qed.
End Dec.

(* ---- the signed paddings prophyc assigns: a negative one names an alignment ---- *)
Lemma walk_pads_ok : forall fs pre, legal_fields legal pre fs = true ->
  Forall (fun f => pc_align (snd f) = align (snd f)) fs ->
  forall prev (after : bool) bs,
  Forall (fun p => p < 0 -> okal (- p)) (fst (fst (pc_walk prev (pc_partial (pcms fs) after) bs))) /\
  length (fst (fst (pc_walk prev (pc_partial (pcms fs) after) bs))) = length fs.
Proof.
  induction fs as [|f r IH]; intros pre Hl Ha prev after bs; [split; [constructor|reflexivity]|].
  destruct (partial_head pre f r after Hl Ha) as [Epar [Eal _]]. cbn zeta in Epar, Eal.
  rewrite Epar, walk_cons.
  cbn [legal_fields] in Hl. apply andb_prop in Hl. destruct Hl as [_ Hlr]. inversion Ha as [|? ? _ Har]; subst.
  destruct (IH (pre ++ [f]) Hlr Har
              (if after then pm_set_align (pc_member pc_size pc_align pc_kind f) (Z.max (pm_align (pc_member pc_size pc_align pc_kind f)) (pc_part_max (pc_member pc_size pc_align pc_kind f :: pcms r))) else pc_member pc_size pc_align pc_kind f)
              (pm_splits (pc_member pc_size pc_align pc_kind f))
              (bs + (pm_size (if after then pm_set_align (pc_member pc_size pc_align pc_kind f) (Z.max (pm_align (pc_member pc_size pc_align pc_kind f)) (pc_part_max (pc_member pc_size pc_align pc_kind f :: pcms r))) else pc_member pc_size pc_align pc_kind f) + pc_member_padding (pm_align (if after then pm_set_align (pc_member pc_size pc_align pc_kind f) (Z.max (pm_align (pc_member pc_size pc_align pc_kind f)) (pc_part_max (pc_member pc_size pc_align pc_kind f :: pcms r))) else pc_member pc_size pc_align pc_kind f)) bs))) as [I1 I2].
  split; [|cbn [length]; rewrite I2; reflexivity].
  constructor; [|exact I1].
  rewrite Eal.
  assert (Hao : okal (if after then blockal (f :: r) else falign align f)) by (destruct after; [apply blockal_ok|apply falign_ok]).
  destruct (_ && _).
  - intros _. rewrite Z.opp_involutive. exact Hao.
  - rewrite pc_member_padding_spec by exact Hao. pose proof (pad_nonneg _ bs Hao). lia.
Qed.

Lemma paddings_ok fs : legal (TStruct fs) = true ->
  Forall (fun p => p < 0 -> okal (- p)) (pc_paddings fs) /\ length (pc_paddings fs) = length fs.
Proof.
  intros Hl. pose proof Hl as Hl0. apply legal_struct in Hl. destruct Hl as [Hne Hok].
  assert (Ha : Forall (fun f => pc_align (snd f) = align (snd f)) fs).
  { rewrite Forall_forall in *. intros f Hf. destruct (Hok f Hf) as [Hlf _]. apply (pc_layout_eq (snd f) Hlf). }
  unfold pc_paddings, pc_struct_layout. fold (pcms fs).
  destruct fs as [|f0 r0]; [congruence|]. cbn [legal] in Hl0.
  destruct (pc_partial (pcms (f0 :: r0)) false) as [|m0 ms] eqn:Ep; [discriminate Ep|]. rewrite <- Ep. cbn zeta.
  destruct (walk_pads_ok (f0 :: r0) [] Hl0 Ha m0 false 0) as [W1 W2].
  destruct (pc_walk m0 (pc_partial (pcms (f0 :: r0)) false) 0) as [[ps lastm] bs]. cbn [fst snd] in *.
  destruct ps as [|p0 ps]; [discriminate W2|]. cbn [tl length] in *. inversion W1 as [|? ? _ W1']; subst.
  split.
  - apply Forall_app. split; [exact W1'|]. constructor; [|constructor].
    assert (Ealn : pc_max_align (pc_partial (pcms (f0 :: r0)) false) = salign align (f0 :: r0)).
    { destruct (amax_pcms (f0 :: r0) Hok Ha) as [_ A2].
      rewrite pc_max_align_amax, amax_partial, A2 by (apply partial_align_ge, pcms_align_ge; assumption). reflexivity. }
    rewrite Ealn. pose proof (salign_ok (f0 :: r0)) as Hsa.
    destruct (existsb _ _).
    + destruct (_ || _); [intros _; rewrite Z.opp_involutive; exact Hsa|lia].
    + rewrite pc_final_padding_spec by exact Hsa. pose proof (pad_nonneg _ bs Hsa). lia.
  - rewrite app_length. cbn [length]. change (fkind * ty)%type with field in *. lia.
Qed.

(* ---- C07 (model level): no load outside the buffer, the cursor only moves forward inside it, the
   greedy loop ends ---- *)
Theorem cpp_dec_safe e data fuel : len data < 2 ^ 64 -> Z.of_nat fuel > len data ->
  forall t, safeP data (cpp_dec e data fuel) t.
Proof.
  intros Hsmall Hfuel t. induction t as [k| |vals|fs IH|arms IH] using ty_ind'; intros Hl Hc pos Hp; try discriminate.
  - (* struct *)
    cbn [cpp_dec]. fold (pcms fs).
    destruct (paddings_ok fs Hl) as [Hps Hpl].
    assert (Hsizers : forall i, is_sizer fs i = true -> exists k, nth_error fs i = Some (FPlain, TScalar k)).
    { intros i Hs. cbn [legal] in Hl. destruct fs as [|f0 r0]; [discriminate|].
      destruct (legal_sizer [] _ Hl i Hs) as [ts [Hn Hi]]. cbn [app] in Hn. destruct ts; try discriminate. eauto. }
    pose proof Hl as Hl0. apply legal_struct in Hl. destruct Hl as [Hne Hok].
    assert (Hboth : Forall (fun f => pc_align (snd f) = align (snd f) /\ pc_size (snd f) = size (snd f)) fs).
    { rewrite Forall_forall in *. intros f Hf. destruct (Hok f Hf) as [Hlf _]. apply (pc_layout_eq (snd f) Hlf). }
    assert (Hlf : legal_fields legal [] fs = true) by (cbn [legal] in Hl0; destruct fs; [discriminate|exact Hl0]).
    pose proof (dec_fields_good e data Hsmall (cpp_dec e data fuel) fuel fs Hfuel Hsizers fs [] (pc_paddings fs) eq_refl Hlf IH Hboth Hps
                  [] pos eq_refl ltac:(intros s _ Hlt; cbn in Hlt; lia) Hp) as HF.
    cbn [length] in HF.
    destruct (cpp_dec_fields e data (cpp_dec e data fuel) fuel fs fs (pcms fs) (pc_paddings fs) 0 [] pos) as [[vs p]| |];
      try contradiction; try exact I.
    cbn [cbind cgood fst snd].
    destruct (stiff_eqb (stiffness (TStruct fs)) Unlimited) eqn:Es.
    + destruct fs as [|f r]; [lia|]. destruct (pc_paddings (f :: r)); [lia|].
      assert (0 <= flo f) by (unfold flo; destruct (fst f); try lia; destruct (stiff_eqb (stiffness (snd f)) Unlimited); lia). lia.
    + apply stiff_eqb_neq in Es. pose proof (first_field_progress fs Hl0 Es) as H1.
      destruct fs as [|f r]; [contradiction|]. destruct (pc_paddings (f :: r)); [discriminate Hpl|]. lia.
  - (* union *)
    cbn [cpp_dec]. pose proof Hl as Hl0. apply legal_union in Hl. destruct Hl as [_ [Hok _]].
    destruct (pc_layout_eq _ Hl0) as [Eal Esz]. cbn [align] in Eal. rewrite Eal, Esz, pc_disc_size_spec.
    pose proof (ualign_ok arms) as Hua. pose proof (ualign_ge4 arms) as H4.
    pose proof (dec_scalar_good e data Hsmall (cpp_dec e data fuel) (TEnum []) pos Hp eq_refl) as H1.
    destruct (cpp_dec_scalar e data (TEnum []) pos) as [[d p]| |]; cbn [cgood] in H1; try contradiction; try exact I.
    cbn [cbind fst snd].
    set (discpad := if 4 <? ualign align arms then ualign align arms - 4 else 0).
    assert (Hdp : 0 <= discpad) by (unfold discpad; destruct (4 <? ualign align arms) eqn:E; lia).
    assert (Hadv : match (if 0 <? discpad then cpp_advance data discpad p else CTrue p) with
                   | CTrue q => p <= q <= len data | CFalse => True | CCrash => False end).
    { destruct (0 <? discpad); [|lia]. destruct (advance_cases data Hsmall (cpp_dec e data fuel) discpad p ltac:(lia) Hdp) as [-> | [-> Hle]]; [exact I|lia]. }
    destruct (if 0 <? discpad then cpp_advance data discpad p else CTrue p) as [q| |]; try contradiction; try exact I.
    cbn [cbind].
    pose proof (dec_arm_good e data Hsmall (cpp_dec e data fuel) arms IH Hok 0%nat (match d with VInt z => z | _ => 0 end) q ltac:(lia)) as HA.
    destruct (cpp_dec_arm e data (cpp_dec e data fuel) arms 0 _ q) as [v| |]; try contradiction; try exact I.
    cbn [cbind].
    assert (Hrest : 0 <= size (TUnion arms) - 4 - discpad).
    { cbn [size]. pose proof (usize_nonneg size arms). pose proof (pad_nonneg (ualign align arms) (ualign align arms + usize size arms) Hua).
      unfold discpad. destruct (4 <? ualign align arms) eqn:E; lia. }
    destruct (advance_cases data Hsmall (cpp_dec e data fuel) _ q ltac:(lia) Hrest) as [-> | [-> Hle]]; [exact I|].
    cbn [cbind cgood stiffness stiff_eqb]. lia.
Qed.

(* message<T>::decode: never undefined, and `true` only when exactly the whole input was consumed *)
Corollary cpp_decode_safe e fs data : len data < 2 ^ 64 -> legal (TStruct fs) = true ->
  cpp_decode e (TStruct fs) data <> CCrash.
Proof.
  intros Hsmall Hl. unfold cpp_decode.
  pose proof (cpp_dec_safe e data (S (length data)) Hsmall ltac:(unfold len; lia) (TStruct fs) Hl eq_refl 0 ltac:(pose proof (len_nonneg data); lia)) as H.
  destruct (cpp_dec e data (S (length data)) (TStruct fs) 0) as [[v p]| |]; cbn [cgood] in H; try contradiction; try discriminate.
  destruct (p =? len data); discriminate.
Qed.

Corollary cpp_decode_exact e t data v : cpp_decode e t data = CTrue v ->
  exists p, cpp_dec e data (S (length data)) t 0 = CTrue (v, p) /\ p = len data.
Proof.
  unfold cpp_decode. destruct (cpp_dec e data (S (length data)) t 0) as [[w p]| |]; try discriminate.
  destruct (p =? len data) eqn:E; [|discriminate]. intros H. injection H as <-. exists p. split; [reflexivity|lia].
Qed.
