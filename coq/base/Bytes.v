(* base/Bytes.v — bytes as lists of Z, alignment arithmetic, integer <-> byte conversions.
   Definitions only (lemmas live in proofs/). *)
From Coq Require Import ZArith List Bool.
Import ListNotations.
Local Open Scope Z_scope.

Definition bytes := list Z.

Definition len {A} (l : list A) : Z := Z.of_nat (length l).

(* distance to the next multiple of [a] (a > 0) *)
Definition pad (a n : Z) : Z := (a - n mod a) mod a.

Definition zeros (n : Z) : bytes := repeat 0 (Z.to_nat n).

(* w-byte little-endian two's complement image of z (floor div/mod make negatives wrap) *)
Fixpoint le (w : nat) (z : Z) : bytes :=
  match w with O => [] | S w' => (z mod 256) :: le w' (z / 256) end.

Definition be (w : nat) (z : Z) : bytes := rev (le w z).

(* unsigned value of a little-endian byte string *)
Fixpoint unle (bs : bytes) : Z :=
  match bs with [] => 0 | b :: r => b + 256 * unle r end.

Definition unbe (bs : bytes) : Z := unle (rev bs).

Inductive endian := LE | BE.

Definition enc_int (e : endian) (w : Z) (z : Z) : bytes :=
  match e with LE => le (Z.to_nat w) z | BE => be (Z.to_nat w) z end.

Definition dec_uint (e : endian) (bs : bytes) : Z :=
  match e with LE => unle bs | BE => unbe bs end.

(* reinterpret an unsigned w-byte value as signed *)
Definition to_signed (w : Z) (u : Z) : Z :=
  if u <? 2 ^ (8 * w - 1) then u else u - 2 ^ (8 * w).

(* byte-string slicing with Z indices (data[pos:pos+n]) *)
Definition slice (data : bytes) (pos n : Z) : bytes :=
  firstn (Z.to_nat n) (skipn (Z.to_nat pos) data).

(* Python's b.ljust(n, b'\0') *)
Definition ljust (b : bytes) (n : Z) : bytes := b ++ zeros (n - len b).

Definition is_byte (b : Z) : bool := (0 <=? b) && (b <? 256).
