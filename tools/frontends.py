"""Front-end plumbing for checks that exercise prophyc's *compiler* side (as opposed to the
codecs): the isar XML front-end (+ patch files), multi-file prophy input with `#include`,
determinism of the generated files, and grammar-aware corruption of inputs for robustness runs.

Public API
----------
NotExpressible                      raised by the printers when a schema cannot be written
to_isar(t, order=None, ...)         schema tuple -> (isar xml, patch text or None)
to_isar_constants(...)              constants / enums-with-expressions / typedefs / structs -> isar xml
constants_to_prophy(...)            the same declarations as prophy text (caller gives a legal order)
write_text(path, text)              writes str with surrogateescape (mutators may produce raw bytes)
compile_files(files, args, ...)     run `python -m prophyc` (or prophyc.main directly), result as data
model_of(files, args, ...)          run prophyc.main in a subprocess and dump the model as JSON
split_files(t, rng, nfiles, style)  one schema -> several prophy files that #include each other
python_outputs(files_dict, ...)     materialise files, generate python/cpp/cpp_full, return every byte
mutate_text(text, rng, ...)         corrupt a prophy text          -> (text, description)
mutate_xml(xml, rng, ...)           corrupt an isar xml document   -> (xml, description)
mutate_fileset(files, main, rng)    corrupt the include structure of a set of files
classify(result)                    outcome class of a compile_files result (for histograms)

Conventions (see common.py): the implementation is run with /venv/bin/python, PYTHONPATH=/repo,
a fixed PYTHONHASHSEED and no bytecode; every failure of prophyc (non-zero exit, traceback,
hang) comes back as data, never as an exception; scratch directories are created through
common.scratch (removed at exit) and additionally removed eagerly by the helpers that make them.

Facts about prophyc this module relies on (read from /repo, unmodified):
  * isar.py collects nodes *by kind*, not in document order: includes, constants, typedefs,
    enums, structs, unions, messages; model.topological_sort must then repair the order.
  * isar element/attribute forms:  <constant name value/>  <typedef name type|primitiveType/>
    <enum name><enum-member name value/></enum>   <union name><member name type discriminatorValue/></union>
    <struct|message name><member name type [optional="true"]>[<dimension .../>]</member></struct>
    dimension:  size="n" [size2="m"]                         -> fixed array  (size "n*m")
                isVariableSize="true" [variableSizeFieldName="s"] [variableSizeFieldType="T"]
                                                             -> counter member s:T (default x_len:u32) + x<@s>
                the same with size="n" (in <struct> only)    -> counter + limited array x<n>
                variableSizeFieldName="@s"                   -> x<@s>, no counter generated
                size="THIS_IS_VARIABLE_SIZE_ARRAY"           -> x<@numOfX>, no counter generated
    an element without children (struct/union/enum) is silently dropped; negative enumerator
    values are rewritten to 0x1_0000_0000+v; type names are not validated at all (so
    type="byte" passes through and means `bytes`).
  * patch.py: one rule per line `<NODE> <action> <params...>`; rules of one node are applied in
    file order after parsing and before topological sort / sizes.
  * prophy `#include "p"`: p is looked up in the including file's directory, then in -I dirs;
    only the *top-level* definitions of the included file become visible (not transitively);
    the Include node is named by the stem of p.
  * `python -m prophyc` swallows every Exception into `sys.exit(str(e))`: exit code 1 and a bare
    message, no traceback. compile_files(entry="main") calls prophyc.main directly so that the
    exception class is visible.
"""
import json
import os
import random
import re
import shutil
import subprocess
import sys
import xml.etree.ElementTree as ET
from concurrent.futures import ThreadPoolExecutor
from xml.sax.saxutils import quoteattr

sys.path.insert(0, os.path.dirname(os.path.abspath(__file__)))
import common  # noqa: E402
import schema as S  # noqa: E402
from common import PY, NPROC  # noqa: E402


class NotExpressible(Exception):
    """The schema (or a requested style) has no isar(+patch) rendering that prophyc would
    parse to the same model as the prophy text. `reason` says why."""

    def __init__(self, reason):
        Exception.__init__(self, reason)
        self.reason = reason


def write_text(path, text):
    """Write `text` (str) to `path` as UTF-8 with surrogateescape, so that the lone surrogates
    U+DC80..U+DCFF the mutators use to stand for raw bytes 0x80..0xFF come out as those bytes."""
    d = os.path.dirname(path)
    if d:
        os.makedirs(d, exist_ok=True)
    with open(path, "wb") as f:
        f.write(text.encode("utf-8", "surrogateescape"))


def _rmtree(d):
    if not os.environ.get("VERIF_KEEP"):
        shutil.rmtree(d, ignore_errors=True)


def pmap(fn, items, workers=None):
    """Ordered parallel map on threads (the work is in subprocesses)."""
    items = list(items)
    if not items:
        return []
    with ThreadPoolExecutor(max_workers=workers or NPROC) as ex:
        return list(ex.map(fn, items))


# =====================================================================================
# 1. isar printer
# =====================================================================================

ISAR_PRIMITIVE = {"u8": "8 bit integer unsigned", "u16": "16 bit integer unsigned",
                  "u32": "32 bit integer unsigned", "u64": "64 bit integer unsigned",
                  "i8": "8 bit integer signed", "i16": "16 bit integer signed",
                  "i32": "32 bit integer signed", "i64": "64 bit integer signed",
                  "r32": "32 bit float", "r64": "64 bit float"}

STYLES = ("direct", "inline", "patch", "noisy", "mixed")


def _type_name(t):
    """model type_name of a schema type (what both front-ends put into member.type_name)"""
    if t[0] == "scalar":
        return t[1]
    if t[0] == "byte":
        return "byte"
    return t[1]


def _attrs(pairs):
    return "".join(" %s=%s" % (k, quoteattr(str(v))) for k, v in pairs if v is not None)


def _member_xml(name, type_, optional=False, dim=None, extra=()):
    a = _attrs([("name", name), ("type", type_)] + ([("optional", "true")] if optional else []) + list(extra))
    if dim is None:
        return "        <member%s/>\n" % a
    return "        <member%s>\n            <dimension%s/>\n        </member>\n" % (a, _attrs(dim))


def _sizer_users(fields, s):
    return [j for j, f in enumerate(fields) if f[1][0] in ("bound", "limited") and f[1][-1] == s]


def _inlineable(fields, i):
    """can the counter of array member i be generated by the <dimension isVariableSize> form:
    it is the member just before the array, a plain integer scalar, and counts only this array"""
    k = fields[i][1]
    s = k[-1]
    if s != i - 1:
        return False
    sname, sk, st = fields[s]
    return sk[0] == "plain" and st[0] == "scalar" and st[1] in S.INTS and _sizer_users(fields, s) == [i]


def _is_sugar(fields, i):
    """is the counter of array member i the implicit one of the text forms x<> / x<n>"""
    if not _inlineable(fields, i):
        return False
    sname, sk, st = fields[fields[i][1][-1]]
    return sname == "num_of_" + fields[i][0] and st == S.scalar("u32")


def _check_decl(d):
    if not d[2]:
        raise NotExpressible("%s %s has no members: isar drops elements without children "
                             "(and the text grammar has no empty bodies either)" % (d[0], d[1]))
    if d[0] == "enum":
        for n, v in d[2]:
            if v < 0:
                raise NotExpressible("negative enumerator %s=%d: isar rewrites it to 2^32+v, the text "
                                     "front-end keeps it" % (n, v))
    if d[0] == "struct":
        for fname, k, ft in d[2]:
            if ft[0] == "byte" and k[0] in ("plain", "opt"):
                raise NotExpressible("%s.%s: bytes is only a legal element type of arrays" % (d[1], fname))
    if d[0] == "union":
        for disc, an, at in d[2]:
            if at[0] == "byte":
                raise NotExpressible("%s.%s: bytes union arm" % (d[1], an))


def _struct_isar(d, style, bytes_via, allow_patch, message, rng):
    """-> (xml element text, [patch lines])"""
    name, fields = d[1], d[2]
    rules = {"struct": [], "frename": [], "remove": [], "insert": [], "type": [], "static": [],
             "dynamic": [], "limited": [], "greedy": [], "rename": []}
    xml_name = name
    noisy = style == "noisy"
    arrays_patch = style in ("patch", "noisy")

    def need_patch(what):
        if not allow_patch:
            raise NotExpressible("%s.%s needs a patch rule" % (name, what))

    # which counters are generated by the array's <dimension> (and so have no <member> of their own)
    inline = set()
    inserted = set()
    for i, (fname, k, ft) in enumerate(fields):
        if k[0] in ("bound", "limited") and _inlineable(fields, i):
            if arrays_patch:
                if noisy and _is_sugar(fields, i):
                    inserted.add(k[-1])
            elif style == "inline" or _is_sugar(fields, i):
                inline.add(k[-1])
    sizers = set(k[-1] for _, k, _ in fields if k[0] in ("bound", "limited"))

    members = []  # xml text per emitted member
    xnames = {}
    for i, (fname, k, ft) in enumerate(fields):
        if i in inline:
            continue
        if i in inserted:
            need_patch("insert " + fname)
            rules["insert"].append((i, "%s insert %d %s %s" % ("%s", i, fname, _type_name(ft))))
            continue
        tn = _type_name(ft)
        if ft[0] == "byte" and bytes_via == "patch":
            need_patch(fname + " (bytes via `type`)")
            rules["type"].append("%s type %s byte" % ("%s", fname))
            tn = "u8"
        xname = fname
        if noisy and i not in sizers and k[0] != "opt" and (rng is None or rng.random() < 0.5):
            xname = fname + "_Old"
            rules["frename"].append("%s rename %s %s" % ("%s", xname, fname))
        xnames[i] = xname
        kk = k[0]
        if kk == "plain":
            members.append(_member_xml(xname, tn))
        elif kk == "opt":
            members.append(_member_xml(xname, tn, optional=True))
        elif kk == "fixed":
            if arrays_patch:
                need_patch(fname + " (static)")
                members.append(_member_xml(xname, tn))
                rules["static"].append("%s static %s %d" % ("%s", fname, k[1]))
            else:
                members.append(_member_xml(xname, tn, dim=[("size", k[1])]))
        elif kk == "greedy":
            need_patch(fname + " (greedy array)")
            members.append(_member_xml(xname, tn))
            rules["greedy"].append("%s greedy %s" % ("%s", fname))
        elif kk in ("bound", "limited"):
            s = k[-1]
            sname, _, st = fields[s]
            lim = k[1] if kk == "limited" else None
            if arrays_patch:
                need_patch(fname + " (array through patch rules)")
                members.append(_member_xml(xname, tn))
                if lim is None:
                    rules["dynamic"].append("%s dynamic %s %s" % ("%s", fname, sname))
                else:
                    rules["static"].append("%s static %s %d" % ("%s", fname, lim))
                    rules["limited"].append("%s limited %s %s" % ("%s", fname, sname))
            elif s in inline:
                dim = [("isVariableSize", "true")]
                if lim is not None and not message:
                    dim.append(("size", lim))
                dim.append(("variableSizeFieldName", sname))
                if st[1] != "u32" or style == "inline":
                    dim.append(("variableSizeFieldType", st[1]))
                members.append(_member_xml(xname, tn, dim=dim))
                if lim is not None and message:
                    # <message> drops the limit of its variable-size arrays
                    need_patch(fname + " (limited array inside <message>)")
                    rules["static"].append("%s static %s %d" % ("%s", fname, lim))
                    rules["limited"].append("%s limited %s %s" % ("%s", fname, sname))
            elif lim is None:
                members.append(_member_xml(xname, tn, dim=[("isVariableSize", "true"),
                                                          ("variableSizeFieldName", "@" + sname)]))
            else:
                need_patch(fname + " (limited array with an explicit counter)")
                members.append(_member_xml(xname, tn, dim=[("size", lim)]))
                rules["limited"].append("%s limited %s %s" % ("%s", fname, sname))
        else:
            raise ValueError(k)

    tag = "message" if message else "struct"
    as_union = (noisy and not message and all(k[0] == "plain" for _, k, _ in fields) and not inserted
                and (rng is None or rng.random() < 0.5))
    if noisy:
        need_patch("(noisy style)")
        xml_name = name + "_Pre"
        rules["rename"].append("%s rename " + name)
        if not as_union:
            pos = 0 if rng is None else rng.randint(0, len(members))
            members.insert(pos, _member_xml("decoy_", "u64", dim=[("size", 3)]))
            rules["remove"].append("%s remove decoy_")
    if as_union:
        body = ""
        n = 0
        for i, (fname, k, ft) in enumerate(fields):
            body += "        <member%s/>\n" % _attrs([("type", _type_name(ft)), ("name", xnames[i]),
                                                       ("discriminatorValue", n)])
            n += 1
        rules["struct"].append("%s struct")
        text = "    <union%s>\n%s    </union>\n" % (_attrs([("name", xml_name)]), body)
    else:
        text = "    <%s%s>\n%s    </%s>\n" % (tag, _attrs([("name", xml_name)]), "".join(members), tag)
    lines = []
    for key in ("struct", "frename", "remove"):
        lines += rules[key]
    lines += [r for _, r in sorted(rules["insert"])]
    for key in ("type", "static", "dynamic", "limited", "greedy", "rename"):
        lines += rules[key]
    return text, [ln % xml_name for ln in lines]


def _enum_isar(d, style):
    body = "".join("        <enum-member%s/>\n" % _attrs([("name", n), ("value", v)]) for n, v in d[2])
    return "    <enum%s>\n%s    </enum>\n" % (_attrs([("name", d[1])]), body), []


def _union_isar(d, style, allow_patch, rng):
    noisy = style == "noisy" and allow_patch
    xml_name = d[1] + "_Pre" if noisy else d[1]
    lines = []
    body = ""
    for disc, an, at in d[2]:
        xn = an
        if noisy and (rng is None or rng.random() < 0.5):
            xn = an + "_Old"
            lines.append("%s rename %s %s" % (xml_name, xn, an))
        body += "        <member%s/>\n" % _attrs([("type", _type_name(at)), ("name", xn),
                                                   ("discriminatorValue", disc)])
    if noisy:
        lines.append("%s rename %s" % (xml_name, d[1]))
    return "    <union%s>\n%s    </union>\n" % (_attrs([("name", xml_name)]), body), lines


def _ordered(names, order):
    """names reordered: those listed in `order` first, in that order; the rest keep their order"""
    if order is None:
        return list(names)
    seen = set()
    out = []
    for n in order:
        if n in names and n not in seen:
            seen.add(n)
            out.append(n)
    return out + [n for n in names if n not in seen]


def to_isar(t, order=None, style="direct", bytes_via="patch", allow_patch=True, messages=(), rng=None,
            extra_xml=""):
    """Print the declarations reachable from schema tuple `t` as an isar XML document (and, if
    needed, a patch file) that `prophyc --isar [--patch P]` parses to the same model
    (same nodes, member names, type_name/bound/size/greedy/optional) as the text front-end
    builds from `schema.to_prophy(t)`.

    Returns (xml_text, patch_text_or_None).

    order        list of declaration names: document order of the definitions (names not listed
                 follow in dependency order). Note that isar.py regroups by element kind, so only
                 the relative order within enums / structs / unions reaches the model.
    style        'direct'  arrays through <dimension>: fixed -> size=n; x<> / x<n> with the implicit
                           counter -> isVariableSize + variableSizeFieldName="num_of_x" [+ size=n];
                           x<@s> -> variableSizeFieldName="@s"; limited array with an explicit
                           counter -> size=n + patch `limited`; greedy -> plain member + patch `greedy`
                 'inline'  as direct, but every counter that directly precedes its only array is
                           generated by the array's <dimension> (variableSizeFieldName/-Type)
                 'patch'   every array is a plain <member> turned into an array by patch rules
                           (`static`, `dynamic`, `static`+`limited`, `greedy`)
                 'noisy'   as patch, plus: the node is defined under the name X_Pre and renamed, some
                           members are defined as f_Old and renamed, a decoy member is defined and
                           `remove`d, implicit counters are `insert`ed, all-plain structs are defined
                           as <union> and converted with `struct`
                 'mixed'   one of the above per declaration, chosen with `rng`
    bytes_via    'patch': bytes members are written with type="u8" and a `type <f> byte` rule;
                 'direct': type="byte" (works because isar.py does not validate type names)
    allow_patch  False: raise NotExpressible instead of emitting a patch rule (pure isar)
    messages     names of structs to emit as <message> instead of <struct> (a message turns its
                 variable-size arrays with a limit into plain dynamic arrays, so limits are
                 restored by patch rules)
    rng          random.Random used by 'noisy' and 'mixed' (None: deterministic maximal noise)
    extra_xml    raw text put in front of the definitions (e.g. <xi:include .../> or constants)

    Raises NotExpressible when: a declaration has no members; an enumerator is negative; bytes is
    used outside an array; a patch rule would be needed and allow_patch is False."""
    ds = S.decls(t)
    by_name = {}
    for d in ds:
        _check_decl(d)
        by_name[d[1]] = d
    chunks = {}
    patch = []
    for d in ds:
        st = style
        if st == "mixed":
            st = (rng or random).choice(["direct", "inline", "patch", "noisy"] if allow_patch
                                        else ["direct", "inline"])
        if st not in STYLES:
            raise ValueError(style)
        if d[0] == "enum":
            text, lines = _enum_isar(d, st)
        elif d[0] == "union":
            text, lines = _union_isar(d, st, allow_patch, rng)
        else:
            text, lines = _struct_isar(d, st, bytes_via, allow_patch, d[1] in messages, rng)
        chunks[d[1]] = text
        patch += lines
    names = _ordered([d[1] for d in ds], order)
    xml = '<?xml version="1.0" encoding="utf-8"?>\n<x>\n%s%s</x>\n' % (
        extra_xml, "".join(chunks[n] for n in names))
    return xml, ("\n".join(patch) + "\n" if patch else None)


def _dim_attrs(dim):
    """dimension spec of to_isar_constants -> attribute pairs"""
    if dim is None or dim == "opt" or dim == ("opt",):
        return None
    if dim == "dyn" or dim == ("dyn",):
        return [("isVariableSize", "true")]
    if dim[0] == "fixed":
        return [("size", dim[1])] + ([("size2", dim[2])] if len(dim) > 2 else [])
    if dim[0] == "dyn":
        return [("isVariableSize", "true"), ("variableSizeFieldName", dim[1])] + (
            [("variableSizeFieldType", dim[2])] if len(dim) > 2 else [])
    if dim[0] == "limited":
        return [("isVariableSize", "true"), ("size", dim[1])] + (
            [("variableSizeFieldName", dim[2])] if len(dim) > 2 else [])
    if dim[0] == "ext":
        return [("isVariableSize", "true"), ("variableSizeFieldName", "@" + dim[1])]
    raise ValueError(dim)


def to_isar_constants(constants=(), enums=(), typedefs=(), structs=(), unions=(), order=None, includes=()):
    """Isar XML document made of free-form declarations, for checks about constants and names
    referring to each other in arbitrary order (isar input is unordered; prophyc must sort it).

    constants  [(name, expression_text)]           expression may name other constants/enumerators and
                                                    use + - * / << >> | ( ) shiftLeft(a,b) bitMaskOr(a,b)
    enums      [(name, [(enumerator, expression_text_or_int)])]
    typedefs   [(name, type_name)]                  builtin target names are written as given
                                                    (type="u32"); use ('prim', 'u32') as type_name
                                                    for the primitiveType="32 bit integer unsigned" form
    structs    [(name, [(fname, type_name, dim)])]  dim: None | 'opt' | 'dyn' | ('fixed', size_expr[, size2])
                                                    | ('dyn', counter_name[, counter_type])
                                                    | ('limited', size_expr[, counter_name]) | ('ext', counter)
    unions     [(name, [(discriminator_expr, fname, type_name)])]
    order      document order of the declarations by name (others follow in the order given above)
    includes   [href] emitted first as <xi:include href=.../>
    Returns the xml text. Nothing is validated: the point is to feed prophyc arbitrary orders."""
    chunks = {}
    names = []

    def put(name, text):
        key = name
        while key in chunks:  # duplicated definitions are allowed (robustness inputs)
            key += "'"
        chunks[key] = text
        names.append(key)

    for n, e in constants:
        put(n, "    <constant%s/>\n" % _attrs([("name", n), ("value", e)]))
    for n, tn in typedefs:
        if isinstance(tn, tuple) and tn[0] == "prim":
            put(n, "    <typedef%s/>\n" % _attrs([("name", n), ("primitiveType", ISAR_PRIMITIVE[tn[1]])]))
        else:
            put(n, "    <typedef%s/>\n" % _attrs([("name", n), ("type", tn)]))
    for n, ms in enums:
        put(n, "    <enum%s>\n%s    </enum>\n" % (_attrs([("name", n)]), "".join(
            "        <enum-member%s/>\n" % _attrs([("name", mn), ("value", mv)]) for mn, mv in ms)))
    for n, ms in structs:
        body = ""
        for fname, tn, dim in ms:
            body += _member_xml(fname, tn, optional=(dim == "opt" or dim == ("opt",)), dim=_dim_attrs(dim))
        put(n, "    <struct%s>\n%s    </struct>\n" % (_attrs([("name", n)]), body))
    for n, ms in unions:
        put(n, "    <union%s>\n%s    </union>\n" % (_attrs([("name", n)]), "".join(
            "        <member%s/>\n" % _attrs([("type", tn), ("name", an), ("discriminatorValue", dv)])
            for dv, an, tn in ms)))
    inc = "".join("    <xi:include%s/>\n" % _attrs([("href", h)]) for h in includes)
    return '<?xml version="1.0" encoding="utf-8"?>\n<x xmlns:xi="http://www.w3.org/2001/XInclude">\n%s%s</x>\n' % (
        inc, "".join(chunks[n] for n in _ordered(names, order)))


def constants_to_prophy(constants=(), enums=(), typedefs=(), structs=(), unions=(), order=None, includes=()):
    """The declarations of to_isar_constants as prophy text, in document order `order` (the text
    front-end needs declaration before use, which is the caller's business). Counter members of
    ('dyn', name, type) / ('limited', n, name) arrays are written out as explicit members where the
    text syntax has no equivalent sugar; 'dyn' and ('limited', n) use x<> and x<n> (whose implicit
    counter is called num_of_x, not x_len as in isar). shiftLeft/bitMaskOr are not translated."""
    tname = {"r32": "float", "r64": "double", "byte": "bytes"}
    chunks = {}
    names = []

    def put(name, text):
        key = name
        while key in chunks:
            key += "'"
        chunks[key] = text
        names.append(key)

    def ty(tn):
        if isinstance(tn, tuple):
            tn = tn[1]
        return tname.get(tn, tn)

    for n, e in constants:
        put(n, "const %s = %s;\n" % (n, e))
    for n, tn in typedefs:
        put(n, "typedef %s %s;\n" % (ty(tn), n))
    for n, ms in enums:
        put(n, "enum %s\n{\n%s\n};\n" % (n, ",\n".join("    %s = %s" % (mn, mv) for mn, mv in ms)))
    for n, ms in structs:
        lines = []
        for fname, tn, dim in ms:
            if dim is None:
                lines.append("%s %s;" % (ty(tn), fname))
            elif dim == "opt" or dim == ("opt",):
                lines.append("%s* %s;" % (ty(tn), fname))
            elif dim == "dyn" or dim == ("dyn",):
                lines.append("%s %s<>;" % (ty(tn), fname))
            elif dim[0] == "fixed":
                lines.append("%s %s[%s];" % (ty(tn), fname, dim[1] if len(dim) == 2 else "%s*%s" % dim[1:]))
            elif dim[0] == "dyn":
                lines.append("%s %s;" % (dim[2] if len(dim) > 2 else "u32", dim[1]))
                lines.append("%s %s<@%s>;" % (ty(tn), fname, dim[1]))
            elif dim[0] == "limited":
                lines.append("%s %s<%s>;" % (ty(tn), fname, dim[1]))
            elif dim[0] == "ext":
                lines.append("%s %s<@%s>;" % (ty(tn), fname, dim[1]))
        put(n, "struct %s\n{\n%s\n};\n" % (n, "\n".join("    " + ln for ln in lines)))
    for n, ms in unions:
        put(n, "union %s\n{\n%s\n};\n" % (n, "\n".join("    %s: %s %s;" % (dv, ty(tn), an) for dv, an, tn in ms)))
    inc = "".join('#include "%s"\n' % h for h in includes)
    return inc + "\n".join(chunks[n] for n in _ordered(names, order))


# =====================================================================================
# 2./3. running prophyc
# =====================================================================================

def _env(hashseed="0"):
    env = common.impl_env()
    env["PYTHONPATH"] = common.REPO
    env["PYTHONHASHSEED"] = str(hashseed)
    env["PYTHONDONTWRITEBYTECODE"] = "1"
    return env


_TB = "Traceback (most recent call last)"


def last_exception(stderr):
    """class name (without module) of the last exception reported in a Python traceback, or None"""
    pos = stderr.rfind(_TB)
    if pos < 0:
        return None
    name = None
    for line in stderr[pos:].split("\n")[1:]:
        if not line or line[0] in " \t":
            continue
        m = re.match(r"([A-Za-z_][\w.]*)\s*(:|$)", line)
        if m:
            name = m.group(1).split(".")[-1]
            break
    return name


def _run(cmd, cwd, timeout, hashseed, _retry=True):
    """one prophyc process. A run that exceeds `timeout` is repeated once with ten times the budget (at least
    200 s) before it is reported as a timeout: on a loaded machine a 0.3 s compilation can take 20 s, and that is
    not a hang. (Runs are deterministic and write only into their own scratch directory, so repeating is safe.)"""
    if _retry:
        r = _run(cmd, cwd, timeout, hashseed, _retry=False)
        if r[3]:
            r = _run(cmd, cwd, max(10 * timeout, 200), hashseed, _retry=False)
        return r
    try:
        p = subprocess.run(cmd, cwd=cwd, env=_env(hashseed), capture_output=True, timeout=timeout)
        out = p.stdout.decode("utf-8", "replace")
        err = p.stderr.decode("utf-8", "replace")
        return p.returncode, out, err, False
    except subprocess.TimeoutExpired as e:
        out = (e.stdout or b"").decode("utf-8", "replace")
        err = (e.stderr or b"").decode("utf-8", "replace")
        return -9, out, err, True
    except OSError as e:  # e.g. cwd vanished, argument list too long, NUL byte in an argument
        return -1, "", "harness: %s: %s" % (type(e).__name__, e), False
    except ValueError as e:  # embedded null byte in an argument
        return -1, "", "harness: %s: %s" % (type(e).__name__, e), False


def compile_files(files, args, cwd=None, timeout=20, hashseed="0", entry="module"):
    """Run prophyc on `files` with options `args` in working directory `cwd`; nothing is written
    by this function itself (output directories named in `args` must exist).

    entry='module'  `/venv/bin/python -m prophyc <args> <files>`  (what users run; __main__ turns
                    every Exception into exit code 1 + bare message, so no traceback ever shows)
    entry='main'    `/venv/bin/python -c 'import sys, prophyc; prophyc.main(sys.argv[1:])' ...`
                    (exceptions propagate: their class is visible in the traceback)

    Environment: PYTHONPATH=/repo, PYTHONHASHSEED=<hashseed>, PYTHONDONTWRITEBYTECODE=1.
    Returns {"rc": int (-9 on timeout), "stdout": str, "stderr": str, "timeout": bool,
             "traceback": bool   stderr contains "Traceback (most recent call last)",
             "exception": str|None   class name of the last exception in that traceback}.
    Never raises because of prophyc."""
    if entry == "module":
        cmd = [PY, "-m", "prophyc"]
    else:
        cmd = [PY, "-c", "import sys, prophyc; prophyc.main(sys.argv[1:])"]
    rc, out, err, to = _run(cmd + list(args) + list(files), cwd, timeout, hashseed)
    return {"rc": rc, "stdout": out, "stderr": err, "timeout": to, "traceback": _TB in err,
            "exception": last_exception(err)}


def classify(res):
    """Outcome class of a compile_files result, for histograms:
    'timeout' | 'rc0' | 'rc0+warnings' | 'error-message' (a `...: error: ...` diagnostic, i.e. a
    ProphycError) | 'traceback:<Class>' | 'bare-message' (exit code != 0 with some other text:
    with entry='module' that is an unexpected exception swallowed by __main__)"""
    if res["timeout"]:
        return "timeout"
    if res["rc"] == 0:
        return "rc0+warnings" if "warning:" in res["stderr"] else "rc0"
    if res["traceback"]:
        if res["exception"] == "ProphycError":
            return "error-message"
        return "traceback:%s" % res["exception"]
    if ": error: " in res["stderr"]:
        return "error-message"
    return "bare-message"


_MODEL_SCRIPT = r'''
import sys, json
real = sys.stdout
sys.stdout = sys.stderr
def inc(n, M):
    return {"class": "Include", "name": n.name,
            "members": [inc(m, M) if isinstance(m, M.Include) else m.name for m in n.members]}
def node(n, M):
    c = type(n).__name__
    d = {"class": c, "name": n.name}
    if isinstance(n, M.Include):
        return inc(n, M)
    if isinstance(n, M.Struct):
        d.update(byte_size=n.byte_size, alignment=n.alignment, kind=n.kind)
        d["members"] = [[m.name, m.type_name, m.bound, m.size, m.greedy, m.optional, m.numeric_size,
                         m.byte_size, m.alignment, m.padding, m.kind] for m in n.members]
    elif isinstance(n, M.Union):
        d.update(byte_size=n.byte_size, alignment=n.alignment, kind=n.kind)
        d["members"] = [[m.name, m.type_name, m.discriminator, m.byte_size, m.alignment] for m in n.members]
    elif isinstance(n, M.Enum):
        d["members"] = [[m.name, m.value] for m in n.members]
    elif isinstance(n, M.Typedef):
        d["type_name"] = n.type_name
    elif isinstance(n, M.Constant):
        d["value"] = n.value
    return d
try:
    import prophyc
    import prophyc.model as M
    res = prophyc.main(sys.argv[1:])
    out = {"files": dict((k, [node(n, M) for n in v]) for k, v in res.items())}
except BaseException as e:
    out = {"error": type(e).__name__, "message": str(e)}
real.write(json.dumps(out, default=str))
'''


def model_of(files, args, cwd=None, timeout=20, hashseed="0"):
    """Run `prophyc.main(args + files)` in a subprocess and return the evaluated model.
    `--void_out` is added when `args` has no output directive.

    Success: {"files": {input base name: [node, ...]}, "stderr": str}  (isar files given with
    -S appear under their base names too), nodes in model order, each a dict:
      {"class": "Constant", "name", "value"}
      {"class": "Enum", "name", "members": [[name, value], ...]}
      {"class": "Typedef", "name", "type_name"}
      {"class": "Struct", "name", "byte_size", "alignment", "kind",
       "members": [[name, type_name, bound, size, greedy, optional, numeric_size, byte_size,
                    alignment, padding, kind], ...]}
      {"class": "Union", "name", "byte_size", "alignment", "kind",
       "members": [[name, type_name, discriminator, byte_size, alignment], ...]}
      {"class": "Include", "name", "members": [name | nested Include dict, ...]}
    Failure: {"error": exception class name ('Timeout' / 'NoOutput' for harness-level failures),
              "message": str, "timeout": bool, "stderr": str}.  Never raises."""
    args = list(args)
    if not any(a.endswith("_out") or "_out=" in a for a in args):
        args = ["--void_out"] + args
    rc, out, err, to = _run([PY, "-c", _MODEL_SCRIPT] + args + list(files), cwd, timeout, hashseed)
    if to:
        return {"error": "Timeout", "message": "no result within %ss" % timeout, "timeout": True, "stderr": err}
    try:
        res = json.loads(out)
    except ValueError:
        return {"error": "NoOutput", "message": "exit code %s: %s" % (rc, err[-400:]), "timeout": False,
                "stderr": err}
    res["stderr"] = err
    if "error" in res:
        res["timeout"] = False
    return res


def structs_of(model, base=None):
    """{name: node} of the Struct/Union nodes of a model_of result (of file `base`, default: all files)"""
    out = {}
    for b, nodes in model.get("files", {}).items():
        if base is None or b == base:
            for n in nodes:
                if n["class"] in ("Struct", "Union"):
                    out[n["name"]] = n
    return out


# =====================================================================================
# 4. one schema -> several prophy files
# =====================================================================================

SPLIT_STYLES = ("chain", "diamond", "random", "subdirs")


def decl_deps(d):
    """names of the declarations a declaration refers to directly"""
    out = []
    if d[0] == "struct":
        ts = [ft for _, _, ft in d[2]]
    elif d[0] == "union":
        ts = [at for _, _, at in d[2]]
    else:
        ts = []
    for x in ts:
        if x[0] in ("enum", "struct", "union") and x[1] not in out:
            out.append(x[1])
    return out


def split_files(t, rng, nfiles, style, prefix="part"):
    """Partition the declarations of schema `t` into at most `nfiles` prophy text files.

    Every file `#include`s exactly the files that define a name it uses *directly* (prophyc makes
    only the top-level definitions of an included file visible, not those of files it includes in
    turn), so that every file compiles on its own and the file defining `t` — the main file —
    pulls in, transitively, every declaration. The declarations keep their dependency order inside
    each file, and declaration X is placed in a file with an index >= the file index of everything X
    uses, so the include graph is acyclic. Empty files are dropped (fewer than nfiles files may
    come back, e.g. when t has few declarations).

    style  'chain'    contiguous runs of the dependency order: part0 <- part1 <- ... <- main
           'diamond'  declarations without dependencies in part0, `t` in the main file, the others
                      dealt round-robin to the middle files (main includes several files that
                      include the same base file)
           'random'   each declaration in a random admissible file
           'subdirs'  as random, with files spread over sub-directories; an include of a file in
                      another directory is written either as a path relative to the including
                      file or as a bare file name that can only be found through `-I`

    Returns {"files": {relative path: text}, "main": relative path of the file defining t,
             "include_dirs": [relative dirs to pass with -I, in order], "order": [relative paths,
             every file after the files it includes], "where": {declaration name: relative path}}.
    Base names (stems) are unique: prophyc keys its outputs by stem. Deterministic given rng."""
    if style not in SPLIT_STYLES:
        raise ValueError(style)
    ds = S.decls(t)
    n = max(1, min(nfiles, len(ds)))
    idx = {}
    deps = {d[1]: decl_deps(d) for d in ds}
    if style == "chain":
        cuts = sorted(rng.sample(range(1, len(ds)), n - 1)) if n > 1 else []
        k = 0
        for i, d in enumerate(ds):
            while k < len(cuts) and i >= cuts[k]:
                k += 1
            idx[d[1]] = k
    else:
        counter = 0
        for i, d in enumerate(ds):
            lo = max([idx[x] for x in deps[d[1]]] + [0])
            if d is ds[-1]:
                idx[d[1]] = n - 1 if style == "diamond" else rng.randint(lo, n - 1)
            elif style == "diamond":
                if not deps[d[1]] or n < 3:
                    idx[d[1]] = max(lo, 0)
                else:
                    idx[d[1]] = max(lo, 1 + counter % (n - 2))
                    counter += 1
            else:
                idx[d[1]] = rng.randint(lo, n - 1)
    used = sorted(set(idx.values()))
    renum = {k: i for i, k in enumerate(used)}
    nf = len(used)
    main_i = renum[idx[t[1]]]
    stems = {i: ("%s%d" % (prefix, i) if i != main_i else prefix + "main") for i in range(nf)}
    dirs = {i: "" for i in range(nf)}
    if style == "subdirs":
        pool = ["", "inc", "inc/deep", "other"]
        for i in range(nf):
            dirs[i] = "" if i == main_i else rng.choice(pool)
        if nf > 1 and all(v == "" for v in dirs.values()):
            dirs[min(i for i in range(nf) if i != main_i)] = "inc"
    path = {i: os.path.join(dirs[i], stems[i] + ".prophy") if dirs[i] else stems[i] + ".prophy" for i in range(nf)}
    content = {i: [] for i in range(nf)}
    incs = {i: [] for i in range(nf)}
    where = {}
    for d in ds:
        i = renum[idx[d[1]]]
        content[i].append(S.decl_text(d))
        where[d[1]] = path[i]
        for x in deps[d[1]]:
            j = renum[idx[x]]
            if j != i and j not in incs[i]:
                incs[i].append(j)
    include_dirs = []
    files = {}
    for i in range(nf):
        lines = []
        for j in sorted(incs[i]):
            if dirs[i] == dirs[j]:
                ref = stems[j] + ".prophy"
            elif rng.random() < 0.5:
                ref = os.path.relpath(path[j], dirs[i] or ".")
            else:
                ref = stems[j] + ".prophy"
                if dirs[j] not in include_dirs:
                    include_dirs.append(dirs[j])
            lines.append('#include "%s"\n' % ref)
        files[path[i]] = "".join(lines) + ("\n" if lines else "") + "\n".join(content[i])
    include_dirs = [d if d else "." for d in include_dirs]
    return {"files": files, "main": path[main_i], "include_dirs": include_dirs,
            "order": [path[i] for i in range(nf)], "where": where}


def materialise(files_dict, root):
    """write {relative path: text} under `root` (surrogateescape, see write_text)"""
    for rel, text in files_dict.items():
        write_text(os.path.join(root, rel), text)


# =====================================================================================
# 5. generated outputs, byte for byte
# =====================================================================================

def python_outputs(files_dict, main_files, args_extra=(), cwd_rel=".", hashseed="0", order=None,
                   include_dirs=(), timeout=60, entry="module"):
    """Materialise `files_dict` ({relative path: text}) in a fresh scratch directory ROOT, run

        prophyc [-I dir]... <args_extra> --python_out OUT --cpp_out OUT --cpp_full_out OUT <main_files>

    from the working directory ROOT/cwd_rel (created if missing) with every path on the command
    line (input files, -I dirs, OUT = ROOT/OUT) written *relative to that working directory*, and
    return every generated file.

    main_files    relative (to ROOT) paths of the files to compile, in command-line order
    order         optional permutation (list of indices or of paths) of main_files giving the
                  command-line order instead
    include_dirs  directories relative to ROOT, passed with -I
    args_extra    further options passed through unchanged (e.g. ['--isar'], or ['--patch', p] with p
                  relative to the working directory)
    hashseed      PYTHONHASHSEED of the run

    Returns {"rc": int, "stderr": str, "timeout": bool, "cmd": [...],
             "outputs": {file name in OUT: content decoded as latin-1}}.
    For determinism checks: outputs must be byte-identical across hash seeds, working
    directories and command-line orders. The scratch directory is removed before returning."""
    root = common.scratch("out")
    try:
        materialise(files_dict, root)
        out = os.path.join(root, "OUT")
        os.makedirs(out, exist_ok=True)
        cwd = os.path.normpath(os.path.join(root, cwd_rel))
        os.makedirs(cwd, exist_ok=True)
        mains = list(main_files)
        if order is not None:
            mains = [mains[o] if isinstance(o, int) else o for o in order]

        def rel(p):
            return os.path.relpath(os.path.join(root, p), cwd)

        args = []
        for d in include_dirs:
            args += ["-I", rel(d)]
        args += list(args_extra)
        o = os.path.relpath(out, cwd)
        args += ["--python_out", o, "--cpp_out", o, "--cpp_full_out", o]
        files = [rel(m) for m in mains]
        r = compile_files(files, args, cwd=cwd, timeout=timeout, hashseed=hashseed, entry=entry)
        outputs = {}
        for dp, _, fns in os.walk(out):
            for fn in fns:
                with open(os.path.join(dp, fn), "rb") as f:
                    outputs[os.path.relpath(os.path.join(dp, fn), out)] = f.read().decode("latin-1")
        return {"rc": r["rc"], "stderr": r["stderr"], "timeout": r["timeout"], "outputs": outputs,
                "cmd": args + files}
    finally:
        _rmtree(root)


# =====================================================================================
# 6. corruption generators
# =====================================================================================

KEYWORDS = ["const", "enum", "typedef", "struct", "union", "u8", "u16", "u32", "u64", "i8", "i16", "i32",
            "i64", "float", "double", "bytes"]
_TOKEN_RE = re.compile(r'\s+|//[^\n]*\n?|/\*.*?\*/|"[^"\n]*"|0x[0-9a-fA-F]+|\d+|[A-Za-z_][A-Za-z0-9_]*|<<|>>|\.\.\.|.',
                       re.S)
_HUGE = ["4294967296", "18446744073709551616", "99999999999999999999999999", "0xFFFFFFFFFFFFFFFFFF",
         "1000000000"]


def _raw_bytes(rng, n):
    """n random bytes as str: ASCII as is, 0x80..0xFF as lone surrogates (see write_text)"""
    out = []
    for _ in range(n):
        b = rng.choice([0, 1, 9, 27, 127, 128, 0xC3, 0xFF, 0xFE, 0xE2, rng.randint(0, 255)])
        out.append(chr(b) if b < 0x80 else chr(0xDC00 + b))
    return "".join(out)


def tokenize(text):
    """prophy text -> list of tokens (whitespace and comments are tokens too; ''.join gives text back)"""
    return _TOKEN_RE.findall(text)


def _solid(tokens):
    return [i for i, tk in enumerate(tokens) if tk.strip() and not tk.startswith("//") and not tk.startswith("/*")]


def _is_id(tk):
    return re.match(r"[A-Za-z_]\w*$", tk) is not None and tk not in KEYWORDS


def _is_num(tk):
    return re.match(r"(0x[0-9a-fA-F]+|\d+)$", tk) is not None


def _struct_spans(text, kw="struct"):
    """[(name, start of the definition, index just after '{', index of '}', end after ';')]"""
    out = []
    for m in re.finditer(r"\b%s\s+([A-Za-z]\w*)\s*\{" % kw, text):
        close = text.find("}", m.end())
        if close < 0:
            continue
        semi = text.find(";", close)
        out.append((m.group(1), m.start(), m.end(), close, (semi + 1) if semi >= 0 else close + 1))
    return out


# ---- token level (shared by text and, on raw characters, xml)

def _t_delete(tokens, rng):
    s = _solid(tokens)
    i = rng.choice(s)
    tk = tokens[i]
    tokens[i] = ""
    return "delete token %r (#%d)" % (tk, i)


def _t_duplicate(tokens, rng):
    i = rng.choice(_solid(tokens))
    tokens[i] = tokens[i] + " " + tokens[i]
    return "duplicate token %r (#%d)" % (tokens[i].split(" ")[0], i)


def _t_swap(tokens, rng):
    s = _solid(tokens)
    if len(s) < 2:
        return None
    a = rng.randrange(len(s) - 1)
    i, j = s[a], s[a + 1]
    tokens[i], tokens[j] = tokens[j], tokens[i]
    return "swap tokens %r and %r (#%d)" % (tokens[j], tokens[i], i)


def _t_id_keyword(tokens, rng):
    ids = [i for i in _solid(tokens) if _is_id(tokens[i])]
    if not ids:
        return None
    i = rng.choice(ids)
    old = tokens[i]
    tokens[i] = rng.choice(KEYWORDS)
    return "replace identifier %r by keyword %r (#%d)" % (old, tokens[i], i)


def _t_id_undefined(tokens, rng):
    ids = [i for i in _solid(tokens) if _is_id(tokens[i])]
    if not ids:
        return None
    i = rng.choice(ids)
    old = tokens[i]
    tokens[i] = rng.choice(["Undefined_%d" % rng.randint(0, 99), "include", "_", "x" * 300, "num_of_" + old, "class"])
    return "replace identifier %r by %r (#%d)" % (old, tokens[i][:40], i)


def _t_number(tokens, rng):
    nums = [i for i in _solid(tokens) if _is_num(tokens[i])]
    if not nums:
        return None
    i = rng.choice(nums)
    old = tokens[i]
    ids = [tokens[j] for j in _solid(tokens) if _is_id(tokens[j])]
    choices = ["0", "-1", rng.choice(_HUGE), rng.choice(ids) if ids else "NAME", "1/0", "7/2", "08", "0x", "1 << 64",
               "-" + old, "(" + old, "1.5"]
    tokens[i] = rng.choice(choices)
    return "replace number %s by %s (#%d)" % (old, tokens[i], i)


def _t_unbalance(tokens, rng):
    br = [i for i in _solid(tokens) if tokens[i] in "{}[]<>()" and len(tokens[i]) == 1]
    if not br:
        return None
    i = rng.choice(br)
    old = tokens[i]
    mode = rng.choice(["drop", "double", "flip"])
    flip = {"{": "}", "}": "{", "[": "]", "]": "[", "<": ">", ">": "<", "(": ")", ")": "("}
    tokens[i] = {"drop": "", "double": old + old, "flip": flip[old]}[mode]
    return "unbalance: %s %r (#%d)" % (mode, old, i)


def _truncate(text, rng):
    if len(text) < 2:
        return None
    cut = rng.randrange(1, len(text))
    return text[:cut], "truncate at offset %d of %d" % (cut, len(text))


def _random_bytes(text, rng):
    pos = rng.randrange(len(text) + 1)
    n = rng.choice([1, 1, 2, 4, 16])
    junk = _raw_bytes(rng, n)
    return text[:pos] + junk + text[pos:], "insert %d random byte(s) %r at offset %d" % (
        n, junk.encode("utf-8", "surrogateescape"), pos)


_TOKEN_OPS = [_t_delete, _t_duplicate, _t_swap, _t_id_keyword, _t_id_undefined, _t_number, _t_number, _t_unbalance]


# ---- structure level, prophy text

def _s_self_ref(text, rng, fn):
    sp = _struct_spans(text)
    if not sp:
        return None
    name, _, body, close, _ = rng.choice(sp)
    form = rng.choice(["%s selfref;", "%s selfref<>;", "%s* selfref;", "%s selfref[2];"]) % name
    at = rng.choice([body, close])
    return text[:at] + "\n    " + form + "\n" + text[at:], "struct %s refers to itself (%s)" % (name, form)


def _s_mutual_ref(text, rng, fn):
    sp = _struct_spans(text)
    if len(sp) < 2:
        return None
    a, b = sorted(rng.sample(range(len(sp)), 2))
    na, nb = sp[a][0], sp[b][0]
    # later position first so that offsets stay valid
    text = text[:sp[b][2]] + "\n    %s back_ref;\n" % na + text[sp[b][2]:]
    text = text[:sp[a][2]] + "\n    %s fwd_ref;\n" % nb + text[sp[a][2]:]
    return text, "structs %s and %s refer to each other" % (na, nb)


def _s_typedef_cycle(text, rng, fn):
    form = rng.choice(["typedef TCycA TCycB;\ntypedef TCycB TCycA;\n", "typedef TSelf TSelf;\n",
                       "typedef u32 TCycA;\ntypedef TCycA TCycB;\ntypedef TCycB TCycA;\n",
                       "typedef TCycB TCycA;\nstruct TCycB { TCycA x; };\n"])
    sp = _struct_spans(text)
    tail = ""
    if sp and rng.random() < 0.5:
        tail = "struct UsesCycle { TCycA x; %s y; };\n" % sp[-1][0]
    if rng.random() < 0.5:
        return form + text + tail, "typedef cycle at the beginning: " + form.replace("\n", " ")
    return text + "\n" + form + tail, "typedef cycle at the end: " + form.replace("\n", " ")


def _s_duplicate_def(text, rng, fn):
    sp = _struct_spans(text) + _struct_spans(text, "union") + _struct_spans(text, "enum")
    if not sp:
        return None
    name, start, _, _, end = rng.choice(sp)
    block = text[start:end]
    at = rng.choice([end, len(text), 0])
    return text[:at] + "\n" + block + "\n" + text[at:], "definition of %s duplicated at offset %d" % (name, at)


def _s_undefined_type(text, rng, fn):
    sp = _struct_spans(text) + _struct_spans(text, "union")
    if not sp:
        return None
    name, _, body, close, _ = rng.choice(sp)
    members = list(re.finditer(r"(?:(\d+)\s*:\s*)?([A-Za-z]\w*)(\s*\*?\s*)([A-Za-z]\w*)", text[body:close]))
    if not members:
        return None
    m = rng.choice(members)
    new = rng.choice(["Dangling_t", "u128", "num_of_x", name + "x"])
    s, e = body + m.start(2), body + m.end(2)
    return text[:s] + new + text[e:], "%s: member type %s replaced by undefined type %s" % (name, m.group(2), new)


def _s_greedy_middle(text, rng, fn):
    sp = _struct_spans(text)
    if not sp:
        return None
    name, _, body, close, _ = rng.choice(sp)
    form = rng.choice(["u8 greedy_mid<...>;", "bytes greedy_mid<...>;", "u64 greedy_mid<...>;"])
    return text[:body] + "\n    " + form + text[body:], "greedy member put in front of the members of %s" % name


def _s_unlimited_nested_middle(text, rng, fn):
    sp = _struct_spans(text)
    if not sp:
        return None
    name, start, body, close, _ = rng.choice(sp)
    pre = "struct UnlMid { u8 h; u32 t<...>; };\n"
    form = rng.choice(["UnlMid unl_mid;", "UnlMid unl_mid[2];", "UnlMid unl_mid<>;", "UnlMid* unl_mid;"])
    text = text[:body] + "\n    " + form + text[body:]
    return text[:start] + pre + text[start:], "unlimited struct used as %r in front of the members of %s" % (form, name)


def _s_include_missing(text, rng, fn):
    p = rng.choice(["missing_file.prophy", "no/such/dir/x.prophy", "", ".", "/dev/null", "missing"])
    return '#include "%s"\n' % p + text, "include of a missing file %r" % p


def _s_include_self(text, rng, fn):
    return '#include "%s"\n' % fn + text, "file includes itself (%s)" % fn


def _s_bad_sizer(text, rng, fn):
    sp = _struct_spans(text)
    if not sp:
        return None
    name, _, body, close, _ = rng.choice(sp)
    form = rng.choice(["u8 late_arr<@late_cnt>;\n    u32 late_cnt;", "float fcnt;\n    u8 farr<@fcnt>;",
                       "u8 narr<@nowhere>;", "u32 dup;\n    u32 dup;", "u8 zero[0];", "u8 neg[1-2];",
                       "u8 big[0xFFFFFFFFFF];", "u32 num_of_x;\n    u8 x<>;"])
    return text[:close] + "    " + form + "\n" + text[close:], "%s: bad sizer/array: %s" % (name, form.replace("\n", " "))


def _s_const_expr(text, rng, fn):
    form = rng.choice(["const C_DIV = 8 / 2;\n", "const C_DIV0 = 1 / 0;\n", "const C_FWD = C_LATER + 1;\nconst C_LATER = 1;\n",
                       "const C_SELF = C_SELF;\n", "const C_NEG = -1;\nstruct UsesNeg { u8 x[C_NEG]; };\n",
                       "const C_BIG = 1 << 70;\nstruct UsesBig { u8 x[C_BIG]; };\n",
                       "const C_SHR = 1 >> 70;\n", "const C_NEGSH = 1 << -1;\n",
                       "enum EDup { EDup_A = 1, EDup_B = 1 };\n", "enum EBig { EBig_A = 4294967296 };\n",
                       "enum ENeg { ENeg_A = -1 };\n", "union UDup { 1: u8 a; 1: u16 b; };\n",
                       "union UNeg { -1: u8 a; };\n", "union UDyn { 1: u8 a<>; };\n"])
    return text + "\n" + form, "append " + form.replace("\n", " ")


_TEXT_STRUCT_OPS = [_s_self_ref, _s_mutual_ref, _s_typedef_cycle, _s_duplicate_def, _s_undefined_type,
                    _s_greedy_middle, _s_unlimited_nested_middle, _s_include_missing, _s_include_self,
                    _s_bad_sizer, _s_const_expr]


def mutate_text(text, rng, filename="input.prophy", level=None):
    """Grammar-aware corruption of a prophy text. Returns (mutated_text, description).

    level  'token' | 'structure' | None (either, 50/50)
    token level:  delete / duplicate / swap a token; replace an identifier by a keyword or by an
                  undefined (or odd) name; replace a number by 0, -1, a huge number, a name or a
                  malformed literal; drop / double / flip a brace or bracket; truncate the file;
                  insert random bytes (possibly invalid UTF-8: write the result with write_text)
    structure:    struct refers to itself; two structs refer to each other; typedef cycles;
                  duplicated definition; undefined member type; greedy member (or unlimited struct)
                  in the middle; include of a missing file; include of itself (the caller must save
                  the text as `filename`); sizer after the array / of float type / missing,
                  duplicate members, zero / negative / huge array sizes; constant expressions with
                  division, division by zero, forward and self references, over-wide shifts; duplicate
                  / out-of-range enumerators and discriminators.
    Includes between *two* files are the business of mutate_fileset. Deterministic given rng."""
    if level is None:
        level = rng.choice(["token", "structure"])
    for _ in range(20):
        if level == "structure":
            r = rng.choice(_TEXT_STRUCT_OPS)(text, rng, filename)
            if r is not None:
                return r
        else:
            c = rng.random()
            if c < 0.1:
                r = _truncate(text, rng)
            elif c < 0.2:
                r = _random_bytes(text, rng)
            else:
                tokens = tokenize(text)
                if not _solid(tokens):
                    r = _random_bytes(text, rng)
                else:
                    d = rng.choice(_TOKEN_OPS)(tokens, rng)
                    r = None if d is None else ("".join(tokens), d)
            if r is not None:
                return r
        level = rng.choice(["token", "structure"])
    return _random_bytes(text, rng)


# ---- xml

_REQUIRED = {"constant": ["name", "value"], "typedef": ["name", "type", "primitiveType"], "enum": ["name"],
             "enum-member": ["name", "value"], "struct": ["name"], "message": ["name"], "union": ["name"],
             "member": ["name", "type", "discriminatorValue"], "dimension": ["size", "isVariableSize",
                                                                             "variableSizeFieldName"]}
_NUMERIC_ATTRS = [("dimension", "size"), ("dimension", "size2"), ("enum-member", "value"),
                  ("member", "discriminatorValue"), ("constant", "value")]
_NONNUM = ["abc", "", " ", "1 +", "+", "1.5", "0x", "1/0", "7/2", "()", "((1)", "shiftLeft(1", "shiftLeft(1,)",
           "bitMaskOr(,)", "1 2", "NO_SUCH_CONST", "-", "--1", "1e3", "…ñ", "0b1", "08", "-1", "0",
           "99999999999999999999999", "THIS_IS_VARIABLE_SIZE_ARRAY", "1 | 2", "1 << 70", "a b c", "'", "@"]


def _x_parse(xml):
    try:
        return ET.fromstring(xml.encode("utf-8", "surrogateescape"))
    except Exception:  # noqa  (ParseError, ValueError, ...)
        return None


def _x_dump(root):
    return '<?xml version="1.0" encoding="utf-8"?>\n' + ET.tostring(root, encoding="unicode") + "\n"


def _x_all(root, tags):
    return [e for e in root.iter() if e.tag in tags]


def _x_drop_attr(root, rng, fn):
    cands = [(e, a) for e in root.iter() for a in _REQUIRED.get(e.tag, []) if a in e.attrib]
    if not cands:
        return None
    e, a = rng.choice(cands)
    desc = "drop attribute %s of <%s name=%r>" % (a, e.tag, e.get("name"))
    del e.attrib[a]
    return desc


def _x_non_numeric(root, rng, fn):
    cands = [(e, a) for t, a in _NUMERIC_ATTRS for e in _x_all(root, (t,)) if a in e.attrib]
    if not cands:
        return None
    e, a = rng.choice(cands)
    old = e.get(a)
    e.set(a, rng.choice(_NONNUM))
    return "<%s> %s=%r -> %r" % (e.tag, a, old, e.get(a))


def _x_add_member(struct, type_, name, dim=None, optional=False, front=False):
    m = ET.Element("member", {"name": name, "type": type_})
    if optional:
        m.set("optional", "true")
    if dim:
        m.append(ET.Element("dimension", dim))
    if front:
        struct.insert(0, m)
    else:
        struct.append(m)


def _x_cyclic(root, rng, fn):
    structs = _x_all(root, ("struct", "message"))
    if not structs:
        return None
    dim = rng.choice([None, None, {"size": "2"}, {"isVariableSize": "true"}])
    opt = dim is None and rng.random() < 0.3
    front = rng.random() < 0.5
    if len(structs) >= 2 and rng.random() < 0.6:
        k = rng.choice([2, 2, 3]) if len(structs) >= 3 else 2
        ring = rng.sample(structs, k)
        for i, s in enumerate(ring):
            _x_add_member(s, ring[(i + 1) % k].get("name") or "?", "cyc%d" % i, dim, opt, front)
        return "cyclic struct references through %s" % " -> ".join(str(s.get("name")) for s in ring)
    s = rng.choice(structs)
    _x_add_member(s, s.get("name") or "?", "selfref", dim, opt, front)
    return "struct %s refers to itself" % s.get("name")


def _x_cyclic_other(root, rng, fn):
    form = rng.choice(["typedef2", "typedef1", "typedef-struct", "const2", "const1", "enum-const", "union-struct"])
    def add(tag, **kw):
        e = ET.Element(tag, kw)
        root.insert(rng.randint(0, len(root)), e)
        return e
    if form == "typedef2":
        add("typedef", name="TCycA", type="TCycB")
        add("typedef", name="TCycB", type="TCycA")
    elif form == "typedef1":
        add("typedef", name="TSelf", type="TSelf")
    elif form == "typedef-struct":
        add("typedef", name="TCycA", type="SCyc")
        _x_add_member(add("struct", name="SCyc"), "TCycA", "x")
    elif form == "const2":
        add("constant", name="C_CYC_A", value="C_CYC_B + 1")
        add("constant", name="C_CYC_B", value="C_CYC_A + 1")
    elif form == "const1":
        add("constant", name="C_SELF", value="C_SELF")
    elif form == "enum-const":
        add("constant", name="C_FROM_ENUM", value="ECyc_A")
        e = add("enum", name="ECyc")
        e.append(ET.Element("enum-member", {"name": "ECyc_A", "value": "C_FROM_ENUM"}))
    else:
        u = add("union", name="UCyc")
        u.append(ET.Element("member", {"name": "a", "type": "SUCyc", "discriminatorValue": "1"}))
        _x_add_member(add("struct", name="SUCyc"), "UCyc", "u")
    return "cyclic definitions (%s)" % form


def _x_dangling(root, rng, fn):
    cands = [e for e in root.iter() if e.tag in ("member", "typedef") and "type" in e.attrib]
    if not cands:
        return None
    e = rng.choice(cands)
    old = e.get("type")
    e.set("type", rng.choice(["Dangling_t", "u128", "", " ", "bytes", "byte", "float", "u8 ", "8 bit integer unsigned",
                              "ñ", "a.b", "prophy.u8", "None", "__import__('os')"]))
    return "type %r -> dangling %r in <%s name=%r>" % (old, e.get("type"), e.tag, e.get("name"))


def _x_dangling_sizer(root, rng, fn):
    cands = _x_all(root, ("dimension",))
    if not cands:
        return None
    e = rng.choice(cands)
    form = rng.choice([{"variableSizeFieldName": "@nowhere", "isVariableSize": "true"},
                       {"variableSizeFieldName": "@"}, {"variableSizeFieldName": ""},
                       {"variableSizeFieldType": "Dangling_t", "isVariableSize": "true"},
                       {"variableSizeFieldType": "r32", "isVariableSize": "true"},
                       {"size": "THIS_IS_VARIABLE_SIZE_ARRAY"}, {"isVariableSize": "false"},
                       {"size": "2", "size2": "x"}, {"minSize": "9", "size": "1"}])
    e.attrib.update(form)
    return "<dimension> gets %r" % (form,)


def _x_duplicate(root, rng, fn):
    kids = list(root)
    if not kids:
        return None
    e = rng.choice(kids)
    import copy
    c = copy.deepcopy(e)
    if rng.random() < 0.3 and len(c):
        c.remove(list(c)[-1])  # a *different* redefinition
    root.insert(rng.randint(0, len(root)), c)
    return "duplicate definition of <%s name=%r>" % (e.tag, e.get("name"))


def _x_duplicate_member(root, rng, fn):
    cands = [e for e in root.iter() if e.tag in ("struct", "message", "union", "enum") and len(e)]
    if not cands:
        return None
    e = rng.choice(cands)
    import copy
    m = copy.deepcopy(rng.choice(list(e)))
    e.append(m)
    return "duplicate member %r in %s" % (m.get("name"), e.get("name"))


def _x_greedy_like_middle(root, rng, fn):
    structs = _x_all(root, ("struct", "message"))
    if not structs:
        return None
    s = rng.choice(structs)
    form = rng.choice(["dyn-front", "optional-array", "empty", "message"])
    if form == "dyn-front":
        _x_add_member(s, "u64", "dyn_front", {"isVariableSize": "true"}, front=True)
    elif form == "optional-array":
        _x_add_member(s, "u16", "opt_arr", {"isVariableSize": "true", "size": "3"}, optional=True, front=True)
    elif form == "empty":
        for k in list(s):
            s.remove(k)
    else:
        s.tag = "message"
    return "struct %s: %s" % (s.get("name"), form)


def _x_include(root, rng, fn):
    form = rng.choice(["missing", "self", "dir", "empty"])
    href = {"missing": "missing_file.xml", "self": fn, "dir": ".", "empty": ""}[form]
    root.insert(0, ET.Element("include", {"href": href}))
    return "include of %s file (href=%r)" % (form, href)


_XML_TREE_OPS = [_x_drop_attr, _x_drop_attr, _x_non_numeric, _x_non_numeric, _x_cyclic, _x_cyclic_other, _x_dangling,
                 _x_dangling_sizer, _x_duplicate, _x_duplicate_member, _x_greedy_like_middle, _x_include]


def _x_malformed(xml, rng):
    tags = list(re.finditer(r"<[^>]*>", xml))
    form = rng.choice(["drop-tag", "dup-tag", "swap-tags", "drop-close", "bad-entity", "lt-in-attr", "quote",
                       "dup-attr", "truncate", "bytes", "two-roots", "no-root", "doctype", "bad-encoding", "cdata"])
    if form in ("drop-tag", "dup-tag", "drop-close") and tags:
        pool = [m for m in tags if m.group(0).startswith("</")] if form == "drop-close" else tags
        if pool:
            m = rng.choice(pool)
            rep = m.group(0) * 2 if form == "dup-tag" else ""
            return xml[:m.start()] + rep + xml[m.end():], "malformed xml: %s %s" % (form, m.group(0)[:40])
    if form == "swap-tags" and len(tags) >= 2:
        i = rng.randrange(len(tags) - 1)
        a, b = tags[i], tags[i + 1]
        return (xml[:a.start()] + b.group(0) + xml[a.end():b.start()] + a.group(0) + xml[b.end():],
                "malformed xml: swap %s and %s" % (a.group(0)[:30], b.group(0)[:30]))
    quotes = [m.start() for m in re.finditer('"', xml)]
    if form == "bad-entity" and quotes:
        p = rng.choice(quotes)
        return xml[:p] + rng.choice(["&", "&nosuch;", "&#xZZ;", "&#0;"]) + xml[p:], "malformed xml: bad entity at %d" % p
    if form == "lt-in-attr" and quotes:
        p = rng.choice(quotes)
        return xml[:p] + "<" + xml[p:], "malformed xml: '<' inside attribute at %d" % p
    if form == "quote" and quotes:
        p = rng.choice(quotes)
        return xml[:p] + xml[p + 1:], "malformed xml: quote removed at %d" % p
    if form == "dup-attr":
        m = re.search(r'<member name="', xml)
        if m:
            return xml[:m.end() - 6] + 'name="dup" ' + xml[m.end() - 6:], "malformed xml: duplicate attribute"
    if form == "truncate":
        r = _truncate(xml, rng)
        if r:
            return r[0], "malformed xml: " + r[1]
    if form == "two-roots":
        return xml + "<y><struct name=\"Extra\"><member name=\"a\" type=\"u8\"/></struct></y>\n", "malformed xml: two roots"
    if form == "no-root":
        return rng.choice(["", " ", "<?xml version=\"1.0\"?>\n", "not xml at all", "﻿"]), "malformed xml: no root element"
    if form == "doctype":
        return ('<?xml version="1.0"?>\n<!DOCTYPE x [<!ENTITY a "aaaaaaaaaa"><!ENTITY b "&a;&a;&a;&a;&a;&a;&a;&a;">'
                '<!ENTITY c "&b;&b;&b;&b;&b;&b;&b;&b;">]>\n' + re.sub(r"<\?xml[^>]*\?>\s*", "", xml).replace(
                    'name="', 'name="&c;', 1)), "xml with DOCTYPE and nested entities in a name"
    if form == "bad-encoding":
        return re.sub(r'encoding="[^"]*"', 'encoding="%s"' % rng.choice(["utf-16", "ascii", "nosuch", "latin-1"]), xml, 1) + \
            "<!-- ñ… -->", "xml declaration with another encoding + non-ascii comment"
    if form == "cdata":
        return xml.replace("</x>", "<![CDATA[ <struct name='InCdata'/> ]]><!-- <struct> --></x>", 1), "CDATA/comment noise"
    r = _random_bytes(xml, rng)
    return r[0], "malformed xml: " + r[1]


def mutate_xml(xml, rng, filename="input.xml", level=None):
    """Grammar-aware corruption of an isar XML document. Returns (mutated_xml, description).

    level  'tree' | 'raw' | None (tree with probability 0.7)
    tree (the document stays well-formed): drop a required attribute (name / type / value /
          discriminatorValue / the dimension attributes); put non-numeric text (or a dangling
          constant, unbalanced expression, float, ...) where a number is expected; cyclic struct
          references (self, 2- and 3-rings, plain / array / optional members) — unmodified prophyc
          hangs on these; typedef / constant / enum-constant / union-struct cycles; dangling type
          names and sizer names; duplicated definitions and members; dynamic array in front,
          optional array, struct emptied, struct turned into message; include of a missing file,
          of itself (save the document as `filename`), of a directory.
    raw:  malformed XML (dropped / doubled / swapped tags, missing close tag, bad entities, '<' in an
          attribute, missing quote, duplicate attribute, truncation, random bytes, two roots, no
          root, DOCTYPE with nested entities, wrong encoding declaration, CDATA noise).
    If `xml` is not well-formed to begin with only raw mutations apply. Deterministic given rng."""
    if level is None:
        level = "tree" if rng.random() < 0.7 else "raw"
    if level == "tree":
        for _ in range(20):
            root = _x_parse(xml)
            if root is None:
                break
            d = rng.choice(_XML_TREE_OPS)(root, rng, filename)
            if d is not None:
                return _x_dump(root), d
    return _x_malformed(xml, rng)


def mutate_fileset(files, main, rng, kind="prophy"):
    """Corrupt the *include structure* of a set of files ({relative path: text}, `main` its main
    file; kind 'prophy' or 'isar'). Returns (new files dict, description). Mutations: include of a
    missing file; a file includes itself; two files include each other; an include cycle through
    every file; the same file included twice; include of a directory; include by absolute-looking
    or parent-escaping path; case-different file name. The main file stays `main`."""
    files = dict(files)
    names = sorted(files)

    def inc(target):
        if kind == "isar":
            return '<xi:include xmlns:xi="http://www.w3.org/2001/XInclude" href="%s"/>' % target
        return '#include "%s"\n' % target

    def add(path, target):
        text = files[path]
        if kind == "isar":
            m = re.search(r"<[A-Za-z][^>?]*>", text)
            at = m.end() if m else 0
            files[path] = text[:at] + "\n    " + inc(target) + "\n" + text[at:]
        else:
            files[path] = inc(target) + text

    def ref(frm, to):
        return os.path.relpath(to, os.path.dirname(frm) or ".")

    ext = ".xml" if kind == "isar" else ".prophy"
    form = rng.choice(["missing", "self", "mutual", "ring", "twice", "directory", "escape", "case", "new-peer"])
    victim = rng.choice(names)
    if form == "missing":
        add(victim, "missing_file" + ext)
        return files, "%s includes a missing file" % victim
    if form == "self":
        add(victim, os.path.basename(victim))
        return files, "%s includes itself" % victim
    if form == "mutual" and len(names) >= 2:
        a, b = rng.sample(names, 2)
        add(a, ref(a, b))
        add(b, ref(b, a))
        return files, "%s and %s include each other" % (a, b)
    if form == "ring" and len(names) >= 2:
        for i, a in enumerate(names):
            add(a, ref(a, names[(i + 1) % len(names)]))
        return files, "include ring through all %d files" % len(names)
    if form == "twice" and len(names) >= 2:
        a, b = rng.sample(names, 2)
        add(a, ref(a, b))
        add(a, "./" + ref(a, b))
        return files, "%s includes %s twice (two spellings)" % (a, b)
    if form == "directory":
        add(victim, rng.choice([".", "..", "/"]))
        return files, "%s includes a directory" % victim
    if form == "escape":
        add(victim, rng.choice(["../../../../etc/hostname", "/etc/hostname", "~/x" + ext]))
        return files, "%s includes a path outside the tree" % victim
    if form == "case":
        other = rng.choice(names)
        add(victim, ref(victim, other).upper())
        return files, "%s includes %s spelled in upper case" % (victim, other)
    peer = "cycle_peer" + ext
    if kind == "isar":
        files[peer] = '<x>\n    ' + inc(os.path.basename(main)) + '\n    <struct name="PeerS"><member name="a" type="u8"/></struct>\n</x>\n'
    else:
        files[peer] = inc(os.path.basename(main)) + "struct PeerS { u8 a; };\n"
    add(main, os.path.relpath(peer, os.path.dirname(main) or "."))
    return files, "%s and a new file %s include each other" % (main, peer)


# =====================================================================================
# 7. self-test
# =====================================================================================

_RICH_TEXT = """\
const MAX_ITEMS = 4;
const DOUBLE_ITEMS = MAX_ITEMS * 2;
typedef u16 TCount;
typedef TCount TCount2;
enum Color
{
    Color_Red = 1,
    Color_Green = 2,
    Color_Blue = (Color_Red + Color_Green) << 2
};
struct Point
{
    i32 x;
    i32 y;
};
typedef Point TPoint;
union Shape
{
    1: Point p;
    Color_Green: u64 big;
    3: Color c;
};
struct Msg
{
    u8 tag;
    TCount2 n;
    Shape s;
    Point* opt;
    TPoint fixed[MAX_ITEMS];
    u16 lim<DOUBLE_ITEMS>;
    bytes blob<@n>;
    Point pts<>;
    u32 rest<...>;
};
"""

_RICH_XML = to_isar_constants(
    constants=[("MAX_ITEMS", "4"), ("DOUBLE_ITEMS", "MAX_ITEMS * 2"), ("FLAGS", "bitMaskOr(1, shiftLeft(1, 4))")],
    typedefs=[("TCount", ("prim", "u16")), ("TCount2", "TCount"), ("TPoint", "Point")],
    enums=[("Color", [("Color_Red", "1"), ("Color_Green", "2"), ("Color_Blue", "shiftLeft(Color_Green, 2)")])],
    structs=[("Point", [("x", "i32", None), ("y", "i32", None)]),
             ("Msg", [("tag", "u8", None), ("n", "TCount2", None), ("s", "Shape", None), ("opt", "Point", "opt"),
                      ("fixed", "TPoint", ("fixed", "MAX_ITEMS")), ("lim", "u16", ("limited", "DOUBLE_ITEMS")),
                      ("blob", "u8", ("ext", "n")), ("pts", "Point", "dyn")])],
    unions=[("Shape", [("1", "p", "Point"), ("Color_Green", "big", "u64"), ("3", "c", "Color")])],
    order=["Msg", "Shape", "TPoint", "DOUBLE_ITEMS"])


def compare_layout(a, b):
    """differences in byte_size/alignment/kind of structs and unions and byte_size/alignment/padding of
    struct members between two structs_of() maps; also reports members that are not the same
    declaration (name, type_name, bound, size, greedy, optional) as 'shape' differences"""
    diffs = []
    for name in sorted(set(a) | set(b)):
        x, y = a.get(name), b.get(name)
        if x is None or y is None:
            diffs.append(("missing", name, x is not None, y is not None))
            continue
        for key in ("byte_size", "alignment", "kind"):
            if x[key] != y[key]:
                diffs.append(("layout", name, key, x[key], y[key]))
        if len(x["members"]) != len(y["members"]):
            diffs.append(("shape", name, "member count", len(x["members"]), len(y["members"])))
            continue
        for mx, my in zip(x["members"], y["members"]):
            if x["class"] == "Struct":
                if mx[:6] != my[:6]:
                    diffs.append(("shape", name, mx[0], mx[:6], my[:6]))
                if (mx[7], mx[8], mx[9]) != (my[7], my[8], my[9]):
                    diffs.append(("layout", name, mx[0], mx[7:10], my[7:10]))
            else:
                if mx[:3] != my[:3]:
                    diffs.append(("shape", name, mx[0], mx[:3], my[:3]))
                if mx[3:] != my[3:]:
                    diffs.append(("layout", name, mx[0], mx[3:], my[3:]))
    return diffs


def _selftest_isar(seed, n_each=100):
    from collections import Counter
    rng = random.Random(seed)
    ex = list(S.exhaustive_small(2))
    items = [("ex:" + lb, t) for lb, t in rng.sample(ex, min(n_each, len(ex)))]
    rs = S.RandomSchemas(random.Random(seed + 1), prefix="Q")
    items += [("rnd%d" % i, rs.message()) for i in range(n_each)]
    root = common.scratch("isar")
    styles = ["direct", "inline", "patch", "noisy", "mixed"]

    def job(a):
        i, (label, t) = a
        out = {"label": label, "pure": True, "patched": True}
        try:
            text = S.to_prophy(t)
        except ValueError as e:
            out["notext"] = str(e)
            text = None
        try:
            to_isar(t, allow_patch=False, bytes_via="patch")
        except NotExpressible as e:
            out["pure"] = False
            out["pure_reason"] = e.reason.split(" ", 1)[1] if " " in e.reason else e.reason
        st = styles[i % len(styles)]
        r = random.Random(seed * 1000 + i)
        names = [d[1] for d in S.decls(t)]
        r.shuffle(names)
        try:
            xml, patch = to_isar(t, order=names, style=st, rng=r, bytes_via=r.choice(["patch", "direct"]))
        except NotExpressible as e:
            out["patched"] = False
            out["reason"] = e.reason
            return out
        if text is None:
            return out
        d = os.path.join(root, "j%d" % i)
        os.makedirs(d)
        write_text(os.path.join(d, "m.prophy"), text)
        write_text(os.path.join(d, "m.xml"), xml)
        args = ["--isar"]
        if patch:
            write_text(os.path.join(d, "m.patch"), patch)
            args += ["--patch", "m.patch"]
        ma = model_of(["m.prophy"], [], cwd=d)
        mb = model_of(["m.xml"], args, cwd=d)
        out["style"] = st
        if "error" in ma or "error" in mb:
            out["error"] = (ma.get("error"), mb.get("error"), mb.get("message", "")[:200])
        else:
            out["diffs"] = compare_layout(structs_of(ma), structs_of(mb))
        if out.get("error") or out.get("diffs"):
            out["text"], out["xml"], out["patch"] = text, xml, patch
        return out

    try:
        res = pmap(job, list(enumerate(items)))
    finally:
        _rmtree(root)
    n = len(res)
    print("(a) isar route vs text route: %d schemas" % n)
    print("    expressible in pure isar (no patch file): %d" % sum(1 for r in res if r["pure"]))
    print("    expressible in isar + patch:              %d" % sum(1 for r in res if r["patched"]))
    why = Counter(re.sub(r"^.*?\(", "(", r["pure_reason"]) for r in res if not r["pure"])
    print("    first reason a patch is needed:", dict(why))
    print("    not expressible as text (skipped in the comparison): %d" % sum(1 for r in res if "notext" in r))
    cmp_ = [r for r in res if "diffs" in r or "error" in r]
    print("    compared: %d   identical layout+shape: %d   errors: %d   shape diffs: %d   layout diffs: %d" % (
        len(cmp_), sum(1 for r in cmp_ if r.get("diffs") == []), sum(1 for r in cmp_ if "error" in r),
        sum(1 for r in cmp_ if any(d[0] in ("shape", "missing") for d in r.get("diffs", []))),
        sum(1 for r in cmp_ if any(d[0] == "layout" for d in r.get("diffs", [])))))
    print("    by style:", dict(Counter(r["style"] for r in cmp_)))
    bad = [r for r in cmp_ if r.get("diffs") or r.get("error")]
    for r in bad[:5]:
        print("    MISMATCH %s style=%s %s" % (r["label"], r["style"], r.get("error") or r["diffs"][:4]))
        print("    --- text\n%s\n    --- xml\n%s\n    --- patch\n%s" % (r["text"], r["xml"], r["patch"]))
    return len(bad)


def _selftest_split(seed, n=50):
    from collections import Counter
    rs = S.RandomSchemas(random.Random(seed + 2), prefix="P")
    schemas = []
    while len(schemas) < n:
        t = rs.message()
        if len(S.decls(t)) >= 3:
            schemas.append(t)
    root = common.scratch("split")
    jobs = [(i, t, st) for i, t in enumerate(schemas) for st in SPLIT_STYLES]

    def job(a):
        i, t, st = a
        d = os.path.join(root, "s%d_%s" % (i, st))
        os.makedirs(d)
        sp = split_files(t, random.Random(seed * 100 + i), 2 + i % 4, st)
        materialise(sp["files"], d)
        write_text(os.path.join(d, "single.prophy"), S.to_prophy(t))
        inc = []
        for x in sp["include_dirs"]:
            inc += ["-I", x]
        single = model_of(["single.prophy"], [], cwd=d)
        main = model_of([sp["main"]], inc, cwd=d)
        every = model_of(list(reversed(sp["order"])), inc, cwd=d)
        out = {"style": st, "nfiles": len(sp["files"]), "ok": False, "dirs": len(sp["include_dirs"])}
        if "error" in single or "error" in main or "error" in every:
            out["error"] = (single.get("error"), main.get("error"), main.get("message", "")[:300], every.get("error"))
            out["files"] = sp["files"]
            return out
        want = structs_of(single)
        got_main = structs_of(main)
        got_all = structs_of(every)
        d1 = compare_layout({k: v for k, v in want.items() if k in got_main}, got_main)
        d2 = compare_layout(want, got_all)
        root_ok = t[1] in got_main
        out["ok"] = not d1 and not d2 and root_ok
        if not out["ok"]:
            out["diffs"] = (d1[:3], d2[:3], root_ok)
            out["files"] = sp["files"]
        return out

    try:
        res = pmap(job, jobs)
    finally:
        _rmtree(root)
    print("(b) split into files: %d schemas x %d styles" % (len(schemas), len(SPLIT_STYLES)))
    for st in SPLIT_STYLES:
        rr = [r for r in res if r["style"] == st]
        print("    %-8s ok %d/%d   files per split %s   splits needing -I: %d" % (
            st, sum(1 for r in rr if r["ok"]), len(rr), dict(sorted(Counter(r["nfiles"] for r in rr).items())),
            sum(1 for r in rr if r["dirs"])))
    bad = [r for r in res if not r["ok"]]
    for r in bad[:3]:
        print("    MISMATCH", r["style"], r.get("error") or r.get("diffs"))
        for k, v in r["files"].items():
            print("    ---", k)
            print(v)
    return len(bad)


def _selftest_fuzz(seed, n=200, timeout=10):
    from collections import Counter
    rng = random.Random(seed + 3)
    rs = S.RandomSchemas(random.Random(seed + 4), prefix="Z")
    texts, xmls = [_RICH_TEXT], [(_RICH_XML, None)]
    while len(texts) < 8:
        t = rs.message()
        try:
            texts.append(S.to_prophy(t))
            xmls.append(to_isar(t, style="direct"))
        except (ValueError, NotExpressible):
            pass
    root = common.scratch("fuzz")
    jobs = []
    for i in range(n):
        base = texts[i % len(texts)]
        m, desc = mutate_text(base, rng, filename="input.prophy")
        jobs.append(("text", i, m, None, desc))
    for i in range(n):
        base, patch = xmls[i % len(xmls)]
        m, desc = mutate_xml(base, rng, filename="input.xml")
        jobs.append(("xml", i, m, patch, desc))

    def job(a):
        kind, i, m, patch, desc = a
        d = os.path.join(root, "%s%d" % (kind, i))
        os.makedirs(os.path.join(d, "out"))
        fn = "input.prophy" if kind == "text" else "input.xml"
        write_text(os.path.join(d, fn), m)
        args = ["--python_out", "out"]
        if kind == "xml":
            args = ["--isar"] + args
            if patch:
                write_text(os.path.join(d, "p.patch"), patch)
                args += ["--patch", "p.patch"]
        r = compile_files([fn], args, cwd=d, timeout=timeout, entry="main")
        r2 = compile_files([fn], args, cwd=d, timeout=timeout, entry="module") if not r["timeout"] else r
        return kind, classify(r), classify(r2), desc, r["stderr"].strip().split("\n")[-1][:160]

    try:
        res = pmap(job, jobs)
    finally:
        _rmtree(root)
    print("(c) robustness: %d mutated texts, %d mutated xmls (timeout %ds)" % (n, n, timeout))
    for kind in ("text", "xml"):
        rr = [r for r in res if r[0] == kind]
        print("    %s via prophyc.main (exception classes visible):" % kind)
        for k, v in sorted(Counter(r[1] for r in rr).items(), key=lambda kv: -kv[1]):
            ex = next(r for r in rr if r[1] == k)
            print("      %4d  %-28s e.g. %s  =>  %s" % (v, k, ex[3][:70], ex[4][:90] if not k.startswith("rc0") else ""))
        print("    %s via `python -m prophyc`: %s" % (kind, dict(Counter(r[2] for r in rr))))
    return 0


def _selftest():
    seed = common.seed()
    t = common.Timer()
    bad = _selftest_isar(seed)
    print("    [%.1fs]" % t.s())
    bad += _selftest_split(seed)
    print("    [%.1fs]" % t.s())
    _selftest_fuzz(seed)
    print("    [%.1fs]" % t.s())
    print("self-test: %s" % ("OK" if not bad else "%d MISMATCHES (see above)" % bad))
    return 0


if __name__ == "__main__":
    sys.exit(_selftest())
