#!/venv/bin/python
"""Seeded-change bookkeeping.

  seedtest.py confirm <worktree> <property>      confirm every <worktree>/mutations/m*/ (patch applies, full test
                                                  suite passes with it, demo fails with it and passes without it) and
                                                  copy the confirmed ones to /verif/seeded/<property>-<n>/
  seedtest.py prun <seeded dir>...                 the same for many seeded changes in parallel, each in an isolated scratch
                                                  worktree of /repo (PROPHY_REPO) and scratch copy of /verif; /repo is not touched
  seedtest.py run <seeded dir> [check ids...]     apply the seeded patch to /repo, run the given checks (default: the
                                                  property's own), record which report a VIOLATION, undo the patch
"""
import json
import os
import shutil
import subprocess
import sys

VERIF = os.path.dirname(os.path.dirname(os.path.abspath(__file__)))
PY = "/venv/bin/python"


def sh(cmd, cwd=None, env=None, timeout=1800):
    p = subprocess.run(cmd, cwd=cwd, env=env, capture_output=True, text=True, timeout=timeout, shell=isinstance(cmd, str))
    return p.returncode, p.stdout + p.stderr


def demo_cmd(mdir):
    for n in ("demo.py", "demo.sh"):
        if os.path.exists(os.path.join(mdir, n)):
            return [PY, n] if n.endswith(".py") else ["bash", n]
    return None


def confirm(wt, pid):
    mroot = os.path.join(wt, "mutations")
    out = []
    for m in sorted(os.listdir(mroot)):
        mdir = os.path.join(mroot, m)
        if not os.path.isdir(mdir) or not os.path.exists(os.path.join(mdir, "patch.diff")):
            continue
        env = dict(os.environ, PROPHY_ROOT=wt, PYTHONPATH=wt, PYTHONDONTWRITEBYTECODE="1")
        sh(["git", "checkout", "--", "."], cwd=wt)
        rc0, o0 = sh(demo_cmd(mdir), cwd=mdir, env=env, timeout=600)
        rca, oa = sh(["git", "apply", os.path.join(mdir, "patch.diff")], cwd=wt)
        rct, ot = sh([PY, "-m", "pytest", "-q", "-p", "no:cacheprovider", "--timeout=900", "-x"], cwd=wt, env=dict(env, PYTHONPATH=wt), timeout=1800)
        rc1, o1 = sh(demo_cmd(mdir), cwd=mdir, env=env, timeout=600)
        sh(["git", "checkout", "--", "."], cwd=wt)
        ok = (rca == 0 and rct == 0 and rc0 == 0 and rc1 != 0)
        res = {"mutation": m, "patch_applies": rca == 0, "tests_pass_with_patch": rct == 0, "tests_summary": ot.strip().split("\n")[-1][-120:],
               "demo_passes_clean": rc0 == 0, "demo_fails_with_patch": rc1 != 0, "demo_message": o1.strip().split("\n")[-1][-300:], "confirmed": ok}
        out.append(res)
        print(json.dumps(res))
        if ok:
            n = 1
            while os.path.exists(os.path.join(VERIF, "seeded", "%s-%d" % (pid, n))):
                n += 1
            dst = os.path.join(VERIF, "seeded", "%s-%d" % (pid, n))
            os.makedirs(dst)
            for f in os.listdir(mdir):
                if os.path.isfile(os.path.join(mdir, f)):
                    shutil.copy(os.path.join(mdir, f), dst)
            meta = {}
            if os.path.exists(os.path.join(dst, "meta.json")):
                with open(os.path.join(dst, "meta.json")) as fh:
                    meta = json.load(fh)
            meta.update({"property": pid, "confirmed": res,
                         "what_i_ran": "in a scratch worktree of /repo: git apply patch.diff; full pytest suite; demo with and without the patch"})
            with open(os.path.join(dst, "meta.json"), "w") as fh:
                json.dump(meta, fh, indent=1)
    return out


def run(sdir, checks):
    with open(os.path.join(sdir, "meta.json")) as fh:
        meta = json.load(fh)
    checks = checks or [meta["property"]]
    rc, o = sh(["git", "-C", "/repo", "status", "--porcelain"])
    if o.strip():
        print("refusing: /repo is not clean"); return 2
    rc, o = sh(["git", "-C", "/repo", "apply", os.path.abspath(os.path.join(sdir, "patch.diff"))])
    if rc != 0:
        print("patch does not apply to /repo:", o[-300:]); return 2
    results = meta.setdefault("checks", {})
    try:
        for cid in checks:
            rcc, oc = sh(["./check", cid, "--tier", "quick"], cwd=VERIF, timeout=3600)
            v = [l for l in oc.split("\n") if l.startswith("VIOLATION")]
            results[cid] = {"exit": rcc, "violations": len(v), "first": v[0][:300] if v else None,
                            "no_failing_input_found_only": bool(v) and all("no-failing-input-found" in x for x in v)}
            print(cid, results[cid])
    finally:
        sh(["git", "-C", "/repo", "checkout", "--", "."])
    with open(os.path.join(sdir, "meta.json"), "w") as fh:
        json.dump(meta, fh, indent=1)
    return 0


RELATED = {"C01": ["C19"], "C02": ["C06"], "C03": ["C05", "C07"], "C04": ["C01", "C08"], "C05": ["C03"], "C06": ["C02"],
           "C07": ["C03"], "C08": ["C04"], "C09": ["C08"], "C10": ["C11"], "C11": ["C10"], "C12": ["C13"], "C13": ["C15"],
           "C15": ["C13"], "C19": ["C01", "C03"], "C20": ["C16"]}


def prun_one(sdir):
    """run the property's own check and its related checks against the seeded change in an isolated copy:
    a scratch worktree of /repo with the patch applied (PROPHY_REPO) and a scratch copy of /verif; /repo is untouched"""
    sdir = os.path.abspath(sdir)
    name = os.path.basename(sdir)
    with open(os.path.join(sdir, "meta.json")) as fh:
        meta = json.load(fh)
    pid = meta["property"]
    wt, vf = "/tmp/sw-" + name, "/tmp/vf-" + name
    sh(["git", "-C", "/repo", "worktree", "remove", "--force", wt]); shutil.rmtree(vf, ignore_errors=True)
    rc, o = sh(["git", "-C", "/repo", "worktree", "add", "--detach", wt, "HEAD"])
    if rc != 0:
        return name, {"error": o[-300:]}
    results = {}
    try:
        rc, o = sh(["git", "-C", wt, "apply", os.path.join(sdir, "patch.diff")])
        if rc != 0:
            return name, {"error": "patch does not apply: " + o[-300:]}
        sh(["rsync", "-a", "--exclude", "work", "--exclude", "replays", "--exclude", ".git", "--exclude", "seeded", VERIF + "/", vf + "/"])
        env = dict(os.environ, PROPHY_REPO=wt)
        explicit = [c for c in os.environ.get("SEED_CHECKS", "").split(",") if c]
        for cid in explicit or ([pid] + ([] if os.environ.get("SEED_OWN_ONLY") else RELATED.get(pid, []))):
            try:
                rcc, oc = sh(["./check", cid, "--tier", "quick"], cwd=vf, env=env, timeout=3600)
            except subprocess.TimeoutExpired:
                rcc, oc = 124, "VIOLATION property=%s replay=timeout (check did not finish in 3600 s)" % cid
            v = [l for l in oc.split("\n") if l.startswith("VIOLATION")]
            results[cid] = {"exit": rcc, "violations": len(v), "first": v[0][:300].replace(vf, VERIF) if v else None,
                            "no_failing_input_found_only": bool(v) and all("no-failing-input-found" in x for x in v)}
            if rcc not in (0, 1):
                results[cid]["tail"] = oc[-400:]
    finally:
        sh(["git", "-C", "/repo", "worktree", "remove", "--force", wt]); shutil.rmtree(vf, ignore_errors=True)
    meta.setdefault("checks", {}).update(results)
    meta["how_checks_were_run"] = ("tools/seedtest.py prun: patch applied in a scratch worktree of /repo (PROPHY_REPO), checks run from a scratch copy "
                                   "of /verif; equivalent to git -C /repo apply + ./check + git checkout, without touching /repo")
    with open(os.path.join(sdir, "meta.json"), "w") as fh:
        json.dump(meta, fh, indent=1)
    return name, results


def prun(sdirs, par=int(os.environ.get("SEED_PAR", "2"))):
    from concurrent.futures import ThreadPoolExecutor
    with ThreadPoolExecutor(par) as ex:
        for name, res in ex.map(prun_one, sdirs):
            print(name, json.dumps(res)); sys.stdout.flush()


if __name__ == "__main__":
    if sys.argv[1] == "confirm":
        confirm(sys.argv[2], sys.argv[3])
    elif sys.argv[1] == "prun":
        prun(sys.argv[2:])
    elif sys.argv[1] == "run":
        sys.exit(run(sys.argv[2], sys.argv[3:]))
