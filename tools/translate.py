#!/venv/bin/python
"""Fail-closed translator: reads the *current* /repo sources and writes coq/gen/Src.v.

What is translated (and nothing else): literal tables and the small arithmetic kernels on
which every layout depends. Control flow is hand-modelled in coq/model and tied to the code by
the correspondence harness. Any construct the translator does not know makes it exit non-zero,
naming the construct — a changed shape of the source is a broken tie, never a silent skip.

The output has one section per family of sources: py (prophy/*.py, the Python runtime), pc
(prophyc/model.py), cpp (prophy_cpp headers), prec (the precedence tables of the two expression
parsers). VERIF_FAMILIES (comma separated; default: all) names the families the property being
checked is about: those are translated from the current tree, fail-closed; the other sections are
taken from the committed reference translation of the unchanged tree (coq/ref/Src.v), so that a
change confined to sources a property does not depend on can neither break that property's proof
obligations nor stop its check (if the reference is missing they are translated as well)."""
import ast
import os
import re
import sys

REPO = os.environ.get("PROPHY_REPO", "/repo")
COQ = os.path.join(os.path.dirname(os.path.dirname(os.path.abspath(__file__))), "coq")
OUT = os.environ.get("TRANSLATE_OUT", os.path.join(COQ, "gen", "Src.v"))
REF = os.path.join(COQ, "ref", "Src.v")
FAMILIES = ("py", "pc", "cpp", "prec")
NAMES = ["u8", "u16", "u32", "u64", "i8", "i16", "i32", "i64", "r32", "r64"]


def marker(fam):
    return "(* ==== section %s ==== *)" % fam


def reference_sections():
    """the per-family sections of the committed reference translation of the unchanged tree, or None"""
    try:
        with open(REF) as f:
            text = f.read()
    except OSError:
        return None
    secs = {}
    for i, fam in enumerate(FAMILIES):
        a = text.find(marker(fam))
        if a < 0:
            return None
        b = text.find(marker(FAMILIES[i + 1])) if i + 1 < len(FAMILIES) else len(text)
        if b < 0:
            return None
        secs[fam] = text[a + len(marker(fam)):b].strip("\n").split("\n")
    return secs


class Unsupported(Exception):
    pass


def die(msg):
    sys.stderr.write("translate.py: " + msg + "\n")
    sys.exit(2)


def parse(rel):
    with open(os.path.join(REPO, rel)) as f:
        return ast.parse(f.read(), rel)


# ------------------------------------------------------------------ expression compiler

BINOPS = {ast.Add: "(%s + %s)", ast.Sub: "(%s - %s)", ast.Mult: "(%s * %s)",
          ast.Mod: "(%s mod %s)", ast.FloorDiv: "(%s / %s)",
          ast.LShift: "(Z.shiftl %s %s)", ast.RShift: "(Z.shiftr %s %s)",
          ast.BitAnd: "(Z.land %s %s)", ast.BitOr: "(Z.lor %s %s)"}
CMPOPS = {ast.Lt: "(%s <? %s)", ast.LtE: "(%s <=? %s)", ast.Gt: "(%s >? %s)", ast.GtE: "(%s >=? %s)",
          ast.Eq: "(%s =? %s)", ast.NotEq: "(negb (%s =? %s))"}


def attr_path(node):
    parts = []
    while isinstance(node, ast.Attribute):
        parts.append(node.attr)
        node = node.value
    if isinstance(node, ast.Name):
        parts.append(node.id)
        return ".".join(reversed(parts))
    raise Unsupported("attribute base %s" % ast.dump(node))


def zexpr(node, env):
    """Python integer expression -> Coq Z term. env maps names / dotted paths to Coq terms."""
    if isinstance(node, ast.Constant) and isinstance(node.value, int) and not isinstance(node.value, bool):
        return "%d" % node.value if node.value >= 0 else "(%d)" % node.value
    if isinstance(node, ast.Name):
        if node.id in env:
            return env[node.id]
        raise Unsupported("free name %s" % node.id)
    if isinstance(node, ast.Attribute):
        p = attr_path(node)
        if p in env:
            return env[p]
        raise Unsupported("free attribute %s" % p)
    if isinstance(node, ast.UnaryOp) and isinstance(node.op, ast.USub):
        return "(- %s)" % zexpr(node.operand, env)
    if isinstance(node, ast.BinOp):
        if isinstance(node.op, ast.Div):
            raise Unsupported("true division '/' in an integer kernel (line %d)" % node.lineno)
        if type(node.op) not in BINOPS:
            raise Unsupported("operator %s" % type(node.op).__name__)
        return BINOPS[type(node.op)] % (zexpr(node.left, env), zexpr(node.right, env))
    if isinstance(node, ast.Call) and isinstance(node.func, ast.Name):
        fn = node.func.id
        if fn in ("max", "min") and len(node.args) == 2 and not node.keywords:
            return "(Z.%s %s %s)" % (fn, zexpr(node.args[0], env), zexpr(node.args[1], env))
        if fn == "int" and len(node.args) == 1 and isinstance(node.args[0], ast.BinOp) \
                and isinstance(node.args[0].op, ast.Div):
            # int(a / b): true division then truncation toward zero
            return "(Z.quot %s %s)" % (zexpr(node.args[0].left, env), zexpr(node.args[0].right, env))
        if fn in env and callable(env[fn]):
            return env[fn](*[zexpr(a, env) for a in node.args])
    raise Unsupported(ast.dump(node)[:200])


def bexpr(node, env):
    """Python condition -> Coq bool term"""
    if isinstance(node, ast.Compare) and len(node.ops) == 1:
        if type(node.ops[0]) not in CMPOPS:
            raise Unsupported("comparison %s" % type(node.ops[0]).__name__)
        return CMPOPS[type(node.ops[0])] % (zexpr(node.left, env), zexpr(node.comparators[0], env))
    if isinstance(node, ast.Compare) and len(node.ops) == 2:
        a, b, c = node.left, node.comparators[0], node.comparators[1]
        return "(%s && %s)" % (CMPOPS[type(node.ops[0])] % (zexpr(a, env), zexpr(b, env)),
                               CMPOPS[type(node.ops[1])] % (zexpr(b, env), zexpr(c, env)))
    if isinstance(node, ast.BoolOp):
        op = " && " if isinstance(node.op, ast.And) else " || "
        return "(" + op.join(bexpr(v, env) for v in node.values) + ")"
    if isinstance(node, ast.UnaryOp) and isinstance(node.op, ast.Not):
        return "(negb %s)" % bexpr(node.operand, env)
    raise Unsupported(ast.dump(node)[:200])


def const_eval(node):
    """evaluate a literal integer expression"""
    if isinstance(node, ast.Constant) and isinstance(node.value, int):
        return node.value
    if isinstance(node, ast.UnaryOp) and isinstance(node.op, ast.USub):
        return -const_eval(node.operand)
    if isinstance(node, ast.BinOp):
        a, b = const_eval(node.left), const_eval(node.right)
        if isinstance(node.op, ast.Add):
            return a + b
        if isinstance(node.op, ast.Sub):
            return a - b
        if isinstance(node.op, ast.Mult):
            return a * b
        if isinstance(node.op, ast.LShift):
            return a << b
    raise Unsupported("constant %s" % ast.dump(node)[:100])


# ------------------------------------------------------------------ locators

def find_def(tree, *path):
    """find nested FunctionDef/ClassDef by names"""
    node = tree
    for name in path:
        for child in ast.walk(node):
            if child is not node and isinstance(child, (ast.FunctionDef, ast.ClassDef)) and child.name == name:
                node = child
                break
        else:
            raise Unsupported("definition %s not found" % "/".join(path))
    return node


def assigns_to(node, target):
    """values assigned to a name or dotted attribute inside node, in source order"""
    out = []
    for child in ast.walk(node):
        if isinstance(child, ast.Assign) and len(child.targets) == 1:
            t = child.targets[0]
            try:
                name = t.id if isinstance(t, ast.Name) else attr_path(t)
            except Unsupported:
                continue
            if name == target:
                out.append(child.value)
    return out


def single_assign(node, target):
    vals = assigns_to(node, target)
    if len(vals) != 1:
        raise Unsupported("expected exactly one assignment to %s, found %d" % (target, len(vals)))
    return vals[0]


def func_to_coq(fn, coq_name, params_env):
    """a function body made of simple assignments followed by `return <expr>`"""
    env = dict(params_env)
    lets = []
    for st in fn.body:
        if isinstance(st, ast.Expr) and isinstance(st.value, ast.Constant):
            continue  # docstring
        if isinstance(st, ast.Assign) and len(st.targets) == 1 and isinstance(st.targets[0], ast.Name):
            v = zexpr(st.value, env)
            lets.append((st.targets[0].id, v))
            env[st.targets[0].id] = st.targets[0].id
        elif isinstance(st, ast.Return):
            body = zexpr(st.value, env)
            for n, v in reversed(lets):
                body = "let %s := %s in %s" % (n, v, body)
            return body
        else:
            raise Unsupported("statement %s in %s" % (type(st).__name__, fn.name))
    raise Unsupported("no return in %s" % fn.name)


# ------------------------------------------------------------------ the extraction

def sec_py(w):
    names = NAMES
    # ---- prophy/composite.py: distance_to_next_multiply
    comp = parse("prophy/composite.py")
    fn = find_def(comp, "distance_to_next_multiply")
    args = [a.arg for a in fn.args.args]
    if args != ["number", "alignment"]:
        raise Unsupported("distance_to_next_multiply signature %s" % args)
    w("(* prophy/composite.py distance_to_next_multiply *)")
    w("Definition py_dist (number alignment : Z) : Z := %s." %
      func_to_coq(fn, "py_dist", {"number": "number", "alignment": "alignment"}))
    fa = find_def(comp, "field_alignment")
    if not (len(fa.body) == 2 and isinstance(fa.body[1], ast.Return) and isinstance(fa.body[1].value, ast.IfExp)):
        raise Unsupported("field_alignment body")
    ife = fa.body[1].value
    if not (attr_path(ife.test) == "type_._OPTIONAL" and attr_path(ife.body) == "type_._OPTIONAL_ALIGNMENT"
            and attr_path(ife.orelse) == "type_._ALIGNMENT"):
        raise Unsupported("field_alignment expression")
    w("(* prophy/composite.py field_alignment *)")
    w("Definition py_field_alignment (optional : bool) (opt_alignment alignment : Z) : Z :=")
    w("  if optional then opt_alignment else alignment.")
    w("")

    # ---- prophy/scalar.py: the numeric table
    sc = parse("prophy/scalar.py")
    table = {}
    for node in sc.body:
        if isinstance(node, ast.ClassDef) and node.decorator_list:
            d = node.decorator_list[0]
            if isinstance(d, ast.Call) and isinstance(d.func, ast.Name) and d.func.id in ("int_decorator", "float_decorator"):
                kw = {k.arg: k.value for k in d.keywords}
                size = const_eval(kw["size"])
                fmt = kw["id_"].value
                if d.func.id == "int_decorator":
                    table[node.name] = (size, fmt, const_eval(kw["min_"]), const_eval(kw["max_"]))
                else:
                    table[node.name] = (size, fmt, None, None)
    if sorted(table) != sorted(names):
        raise Unsupported("scalar classes %s" % sorted(table))
    w("(* prophy/scalar.py int_decorator / float_decorator table *)")
    w("Definition py_size (k : sk) : Z := match k with %s end." %
      " | ".join("%s => %d" % (n.upper(), table[n][0]) for n in names))
    w("Definition py_min (k : sk) : Z := match k with %s end." %
      " | ".join("%s => %s" % (n.upper(), "(%d)" % table[n][2] if table[n][2] is not None else "0") for n in names))
    w("Definition py_max (k : sk) : Z := match k with %s end." %
      " | ".join("%s => %s" % (n.upper(), "%d" % table[n][3] if table[n][3] is not None else "(-1)") for n in names))
    # struct format characters: signedness / width as CPython's struct module defines them
    FMT = {'b': (1, True), 'B': (1, False), 'h': (2, True), 'H': (2, False), 'i': (4, True), 'I': (4, False),
           'q': (8, True), 'Q': (8, False), 'f': (4, False), 'd': (8, False)}
    for n in names:
        if table[n][1] not in FMT:
            raise Unsupported("struct format %r" % table[n][1])
    w("Definition py_fmt_size (k : sk) : Z := match k with %s end." %
      " | ".join("%s => %d" % (n.upper(), FMT[table[n][1]][0]) for n in names))
    w("Definition py_fmt_signed (k : sk) : bool := match k with %s end." %
      " | ".join("%s => %s" % (n.upper(), "true" if FMT[table[n][1]][1] else "false") for n in names))
    nd = find_def(sc, "numeric_decorator")
    al = single_assign(nd, "cls._ALIGNMENT")
    sz = single_assign(nd, "cls._SIZE")
    w("Definition py_num_alignment (size : Z) : Z := %s." % zexpr(al, {"size": "size"}))
    w("Definition py_num_size (size : Z) : Z := %s." % zexpr(sz, {"size": "size"}))
    dec = find_def(nd, "decode")
    cond = [s for s in dec.body if isinstance(s, ast.If)]
    if len(cond) != 1:
        raise Unsupported("numeric decode guard")
    w("(* numeric_decorator.decode: `if (len(data) - pos) < size: raise ProphyError` *)")
    w("Definition py_num_short (len_data pos size : Z) : bool := %s." %
      bexpr(cond[0].test, {"len": (lambda a: "len_data"), "data": "data", "pos": "pos", "size": "size"}))
    enumcls = [n for n in sc.body if isinstance(n, ast.ClassDef) and n.name == "enum"]
    if len(enumcls) != 1 or [attr_path(b) if isinstance(b, ast.Attribute) else b.id for b in enumcls[0].bases] != ["u32"]:
        raise Unsupported("enum base class")
    w("Definition py_enum_base : sk := U32.")
    w("")

    # ---- prophy/optional.py
    op = parse("prophy/optional.py")
    fn = find_def(op, "optional")
    oa = single_assign(fn, "_optional._OPTIONAL_ALIGNMENT")
    os_ = single_assign(fn, "_optional._OPTIONAL_SIZE")
    ot = single_assign(fn, "_optional._optional_type")
    if attr_path(ot) != "scalar.u32":
        raise Unsupported("optional flag type")
    w("(* prophy/optional.py *)")
    w("Definition py_opt_alignment (alignment : Z) : Z := %s." %
      zexpr(oa, {"scalar.u32._ALIGNMENT": "(py_num_alignment (py_size U32))", "cls._ALIGNMENT": "alignment"}))
    w("Definition py_opt_size (opt_alignment size : Z) : Z := %s." %
      zexpr(os_, {"_optional._OPTIONAL_ALIGNMENT": "opt_alignment", "cls._SIZE": "size"}))
    w("")

    # ---- prophy/generators.py: union attributes, array guard
    ge = parse("prophy/generators.py")
    ug = find_def(ge, "union_generator", "add_attributes")
    ua = single_assign(ug, "cls._ALIGNMENT")
    if not (isinstance(ua, ast.Call) and ua.func.id == "max" and attr_path(ua.args[0]) == "u32._ALIGNMENT"):
        raise Unsupported("union alignment expression")
    w("(* prophy/generators.py union_generator.add_attributes *)")
    w("Definition py_union_alignment (max_arm_alignment : Z) : Z := Z.max (py_num_alignment (py_size U32)) max_arm_alignment.")
    ns = single_assign(ug, "natural_size")
    if not (isinstance(ns, ast.BinOp) and isinstance(ns.op, ast.Add) and attr_path(ns.left) == "cls._ALIGNMENT"):
        raise Unsupported("union natural_size expression")
    us = single_assign(ug, "cls._SIZE")
    w("Definition py_union_size (alignment max_arm_size : Z) : Z :=")
    w("  let natural_size := alignment + max_arm_size in %s." %
      zexpr(us, {"natural_size": "natural_size", "cls._ALIGNMENT": "alignment",
                 "distance_to_next_multiply": (lambda a, b: "(py_dist %s %s)" % (a, b))}))
    bl = find_def(ge, "build_container_length_field", "_decode")
    g = single_assign(bl, "array_guard")
    w("Definition py_array_guard : Z := %d." % const_eval(g))
    conds = [s for s in bl.body if isinstance(s, ast.If)]
    if len(conds) != 2:
        raise Unsupported("container_len._decode guards")
    w("Definition py_guard_exceeded (value : Z) : bool := %s." %
      bexpr(conds[0].test, {"value": "value", "array_guard": "py_array_guard"}))
    w("Definition py_len_negative (value : Z) : bool := %s." % bexpr(conds[1].test, {"value": "value"}))
    w("")

    # ---- prophy/container.py: array attributes
    co = parse("prophy/container.py")
    ar = find_def(co, "array", "_array")
    w("(* prophy/container.py array()._array *)")
    w("Definition py_array_size (size elem_size : Z) : Z := %s." %
      zexpr(single_assign(ar, "_SIZE"), {"size": "size", "type_._SIZE": "elem_size"}))
    w("Definition py_array_alignment (elem_alignment : Z) : Z := %s." %
      zexpr(single_assign(ar, "_ALIGNMENT"), {"type_._ALIGNMENT": "elem_alignment"}))
    w("")



def sec_pc(w):
    names = NAMES
    # ---- prophyc/model.py
    mo = parse("prophyc/model.py")
    bs = single_assign(mo, "BUILTIN_SIZES")
    sizes = {k.value: const_eval(v) for k, v in zip(bs.keys, bs.values)}
    if sorted(sizes) != sorted(names + ["byte"]):
        raise Unsupported("BUILTIN_SIZES keys %s" % sorted(sizes))
    w("(* prophyc/model.py *)")
    w("Definition pc_builtin_size (k : sk) : Z := match k with %s end." %
      " | ".join("%s => %d" % (n.upper(), sizes[n]) for n in names))
    w("Definition pc_byte_size : Z := %d." % sizes["byte"])
    for cname in ("DISC_SIZE", "ENUM_SIZE"):
        v = single_assign(mo, cname)
        if not (isinstance(v, ast.Subscript) and attr_path(v.value) == "BUILTIN_SIZES"):
            raise Unsupported(cname)
        key = v.slice.value if isinstance(v.slice, ast.Constant) else v.slice.value.value
        w("Definition pc_%s : Z := %d." % (cname.lower(), sizes[key]))
    kinds = find_def(mo, "Kind")
    kv = {t.targets[0].id: const_eval(t.value) for t in kinds.body if isinstance(t, ast.Assign)}
    if kv != {"FIXED": 0, "DYNAMIC": 1, "UNLIMITED": 2}:
        raise Unsupported("Kind values %s" % kv)
    w("Definition pc_kind_order_ok : bool := true.  (* Kind.FIXED < DYNAMIC < UNLIMITED *)")
    es = find_def(mo, "evaluate_sizes")
    eo = find_def(es, "evaluate_array_and_optional_size")
    w("Definition pc_opt_alignment (alignment : Z) : Z := %s." %
      zexpr(single_assign(eo, "member.alignment"), {"DISC_SIZE": "pc_disc_size", "member.alignment": "alignment"}))
    vals = assigns_to(eo, "member.byte_size")
    if len(vals) != 2:
        raise Unsupported("evaluate_array_and_optional_size assignments")
    w("Definition pc_opt_size (byte_size alignment : Z) : Z := %s." %
      zexpr(vals[1], {"member.byte_size": "byte_size", "member.alignment": "alignment"}))
    arr = vals[0]
    # member.numeric_size and (member.byte_size * member.numeric_size) or 0
    if not (isinstance(arr, ast.BoolOp) and isinstance(arr.op, ast.Or) and isinstance(arr.values[0], ast.BoolOp)):
        raise Unsupported("array size expression")
    inner = arr.values[0]
    if not (attr_path(inner.values[0]) == "member.numeric_size"):
        raise Unsupported("array size expression (and)")
    w("Definition pc_array_size (byte_size numeric_size : Z) : Z :=")
    w("  (* `numeric_size and (byte_size * numeric_size) or %s` with numeric_size None/0 ~ 0 *)" % zexpr(arr.values[1], {}))
    w("  if (numeric_size =? 0) then %s else let p := %s in if (p =? 0) then %s else p." % (
        zexpr(arr.values[1], {}),
        zexpr(inner.values[1], {"member.byte_size": "byte_size", "member.numeric_size": "numeric_size"}),
        zexpr(arr.values[1], {})))
    ss = find_def(es, "evaluate_struct_size")
    pads = assigns_to(ss, "padding")
    if len(pads) != 2:
        raise Unsupported("evaluate_struct_size padding assignments")
    w("Definition pc_member_padding (alignment byte_size : Z) : Z := %s." %
      zexpr(pads[0], {"member.alignment": "alignment", "byte_size": "byte_size"}))
    w("Definition pc_final_padding (alignment byte_size : Z) : Z := %s." %
      zexpr(pads[1], {"alignment": "alignment", "byte_size": "byte_size"}))
    us = find_def(es, "evaluate_union_size")
    uvals = assigns_to(us, "node_.byte_size")
    if len(uvals) != 2:
        raise Unsupported("evaluate_union_size assignments")
    w("Definition pc_union_round (byte_size alignment : Z) : Z := %s." %
      zexpr(uvals[1], {"node_.byte_size": "byte_size", "node_.alignment": "alignment"}))
    w("")



def sec_cpp(w):
    # ---- C++ headers: nearest<N>, align<N>
    with open(os.path.join(REPO, "prophy_cpp/include/prophy/detail/byte_size.hpp")) as f:
        h = f.read()
    m = re.search(r"inline T nearest\(T x\)\s*\{\s*return \(x \+ N - 1\) & ~T\(N - 1\);\s*\}", h)
    if not m:
        raise Unsupported("byte_size.hpp nearest<N>")
    w("(* prophy_cpp detail/byte_size.hpp nearest<N>: (x + N - 1) & ~T(N - 1), on naturals *)")
    w("Definition cpp_nearest (N x : Z) : Z := Z.land (x + N - 1) (Z.lnot (N - 1)).")
    with open(os.path.join(REPO, "prophy_cpp/include/prophy/detail/align.hpp")) as f:
        h = f.read()
    m = re.search(r"enum \{ mask = Alignment - 1 \};\s*return reinterpret_cast<uint8_t\*>\(\(reinterpret_cast<uintptr_t>\(ptr\) \+ mask\) & ~uintptr_t\(mask\)\);", h)
    if not m:
        raise Unsupported("align.hpp align<N>")
    w("Definition cpp_align (N ptr : Z) : Z := let mask := N - 1 in Z.land (ptr + mask) (Z.lnot mask).")
    w("")



def sec_prec(w):
    # ---- precedence tables of the two expression parsers
    def prec_table(tree, cls):
        c = find_def(tree, cls)
        v = single_assign(c, "precedence")
        rows = []
        for row in v.elts:
            rows.append([e.value for e in row.elts])
        return rows
    pp = prec_table(parse("prophyc/parsers/prophy.py"), "Parser")
    pc = prec_table(parse("prophyc/calc.py"), "Calc")
    TOK = {'+': 1, '-': 2, '*': 3, '/': 4, 'LSHIFT': 5, 'RSHIFT': 6, 'UMINUS': 7, '|': 8}

    def prec_coq(rows):
        items = []
        for level, row in enumerate(rows):
            assoc = {'left': 0, 'right': 1, 'nonassoc': 2}[row[0]]
            for tok in row[1:]:
                if tok not in TOK:
                    raise Unsupported("precedence token %r" % tok)
                items.append("(%d, (%d, %d))" % (TOK[tok], level, assoc))
        return "[%s]" % "; ".join(items)
    w("(* operator token -> (precedence level, associativity 0=left 1=right); tokens: + 1, - 2, * 3, / 4, << 5, >> 6, unary- 7, | 8 *)")
    w("Definition prec_prophy : list (Z * (Z * Z)) := %s." % prec_coq(pp))
    w("Definition prec_calc : list (Z * (Z * Z)) := %s." % prec_coq(pc))


SECTIONS = {"py": sec_py, "pc": sec_pc, "cpp": sec_cpp, "prec": sec_prec}


def main():
    want = os.environ.get("VERIF_FAMILIES", "all").strip()
    selected = set(FAMILIES) if want in ("", "all") else set(x for x in want.split(",") if x and x != "none")
    unknown = selected - set(FAMILIES)
    if unknown:
        die("unknown family %s" % sorted(unknown))
    ref = reference_sections()
    out = []
    w = out.append
    w("(* GENERATED by /verif/tools/translate.py from the current /repo working tree — do not edit. *)")
    w("From Coq Require Import ZArith List Bool.")
    w("From Prophy Require Import Schema.")
    w("Import ListNotations.")
    w("Local Open Scope Z_scope.")
    w("")
    for fam in FAMILIES:
        w(marker(fam))
        if fam not in selected and ref is not None:
            out.extend(ref[fam])         # not a family of the property being checked: the unchanged tree's translation
            w("")
            continue
        lines = []
        try:
            SECTIONS[fam](lines.append)
        except Unsupported as e:
            die("unsupported source shape (%s sources): %s" % (fam, e))
        except (KeyError, IndexError, AttributeError, TypeError, OSError, SyntaxError) as e:
            die("unexpected source shape (%s sources): %s: %s" % (fam, type(e).__name__, e))
        while lines and lines[-1] == "":
            lines.pop()
        out.extend(lines)
        w("")
    while out and out[-1] == "":
        out.pop()

    text = "\n".join(out) + "\n"
    os.makedirs(os.path.dirname(OUT), exist_ok=True)
    old = None
    if os.path.exists(OUT):
        with open(OUT) as f:
            old = f.read()
    if old != text:
        with open(OUT, "w") as f:
            f.write(text)
    return 0


if __name__ == "__main__":
    sys.exit(main())
