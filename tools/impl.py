"""Drive tools/pyworker.py over batches of jobs, in parallel, under timeouts."""
import json
import os
import subprocess
from concurrent.futures import ThreadPoolExecutor

from common import PY, VERIF, NPROC, impl_env, scratch

WORKER = os.path.join(VERIF, "tools", "pyworker.py")


def _run_batch(batch, timeout, workdir):
    env = impl_env()
    env["VERIF_WORKDIR"] = workdir
    try:
        p = subprocess.run([PY, WORKER], input=json.dumps(batch), capture_output=True, text=True,
                           timeout=timeout, env=env)
    except subprocess.TimeoutExpired:
        return None, "timeout"
    if p.returncode != 0:
        return None, "exit %d: %s" % (p.returncode, p.stderr[-500:])
    try:
        return json.loads(p.stdout), None
    except ValueError:
        return None, "bad output: %s" % p.stdout[-300:]


def run_py_jobs(jobs, batch=25, timeout=120):
    """returns {job id: result}; a job whose worker crashed or hung gets {'worker_error': ...}"""
    workdir = scratch("py")
    batches = [jobs[i:i + batch] for i in range(0, len(jobs), batch)]
    results = {}

    def do(b):
        res, err = _run_batch(b, timeout, workdir)
        if res is not None:
            return res
        if len(b) == 1:
            return [{"id": b[0]["id"], "worker_error": err}]
        out = []
        for j in b:
            r, e = _run_batch([j], max(20, timeout // 4), workdir)
            out.extend(r if r is not None else [{"id": j["id"], "worker_error": e}])
        return out

    with ThreadPoolExecutor(max_workers=NPROC) as ex:
        for res in ex.map(do, batches):
            for r in res:
                results[r["id"]] = r
    return results
