"""Runs the real implementation (prophyc + the prophy Python runtime from $PYTHONPATH) on a
batch of jobs read as JSON from stdin; writes JSON results to stdout.

job = {"id":..., "schema": <schema json>, "text": <prophy text>, "root": <struct name>,
       "values": [<value json>...], "decode": [[endian, hex]...], "want": [...]}
Every exception is reported by class name only."""
import importlib.util
import json
import os
import struct as pystruct
import sys
import tempfile
import shutil
import io
import contextlib

sys.path.insert(0, os.path.dirname(os.path.abspath(__file__)))
import schema as S  # noqa: E402


def exc_name(e):
    return type(e).__name__


def bits_to_float(n, bits):
    if n == 'r32':
        return pystruct.unpack('<f', pystruct.pack('<I', bits))[0]
    return pystruct.unpack('<d', pystruct.pack('<Q', bits))[0]


def float_to_bits(n, x):
    if n == 'r32':
        return pystruct.unpack('<I', pystruct.pack('<f', x))[0]
    return pystruct.unpack('<Q', pystruct.pack('<d', x))[0]


def scalar_to_py(t, z):
    if t[0] == 'scalar' and t[1] in ('r32', 'r64'):
        return bits_to_float(t[1], z)
    return z


def scalar_from_py(t, x):
    if t[0] == 'scalar' and t[1] in ('r32', 'r64'):
        return float_to_bits(t[1], x)
    return int(x)


def set_composite(obj, t, v):
    if t[0] == 'struct':
        set_struct(obj, t, v)
    else:
        set_union(obj, t, v)


def set_union(obj, t, v):
    _, i, x = v
    disc, aname, at = t[2][i]
    obj.discriminator = disc
    if at[0] in ('struct', 'union'):
        set_composite(getattr(obj, aname), at, x)
    else:
        setattr(obj, aname, scalar_to_py(at, x))


def set_struct(obj, t, v):
    fields = t[2]
    sizers = set(k[-1] for _, k, _ in fields if k[0] in ('bound', 'limited'))
    for i, ((fname, k, ft), x) in enumerate(zip(fields, v[1])):
        if i in sizers:
            continue
        comp = ft[0] in ('struct', 'union')
        if k[0] == 'plain':
            if comp:
                set_composite(getattr(obj, fname), ft, x)
            else:
                setattr(obj, fname, scalar_to_py(ft, x))
        elif k[0] == 'opt':
            if x is None:
                setattr(obj, fname, None)
            elif comp:
                setattr(obj, fname, True)
                set_composite(getattr(obj, fname), ft, x[1])
            else:
                setattr(obj, fname, scalar_to_py(ft, x[1]))
        else:
            xs = x[1]
            if ft[0] == 'byte':
                setattr(obj, fname, bytes(bytearray(xs)))
            elif comp:
                arr = getattr(obj, fname)
                if k[0] == 'fixed':
                    for e, xe in zip(arr, xs):
                        set_composite(e, ft, xe)
                else:
                    for xe in xs:
                        set_composite(arr.add(), ft, xe)
            else:
                getattr(obj, fname)[:] = [scalar_to_py(ft, e) for e in xs]


def get_composite(obj, t):
    return get_struct(obj, t) if t[0] == 'struct' else get_union(obj, t)


def get_union(obj, t):
    d = obj.discriminator
    for i, (disc, aname, at) in enumerate(t[2]):
        if disc == d:
            x = getattr(obj, aname)
            if at[0] in ('struct', 'union'):
                return ['union', i, get_composite(x, at)]
            return ['union', i, scalar_from_py(at, x)]
    raise RuntimeError("discriminator not in schema")


def get_struct(obj, t):
    fields = t[2]
    sizers = {}
    for j, (_, k, _) in enumerate(fields):
        if k[0] in ('bound', 'limited') and k[-1] not in sizers:
            sizers[k[-1]] = j
    out = []
    for i, (fname, k, ft) in enumerate(fields):
        comp = ft[0] in ('struct', 'union')
        if i in sizers:
            out.append(len(getattr(obj, fields[sizers[i]][0])))
        elif k[0] == 'plain':
            x = getattr(obj, fname)
            out.append(get_composite(x, ft) if comp else scalar_from_py(ft, x))
        elif k[0] == 'opt':
            x = getattr(obj, fname)
            if x is None:
                out.append(None)
            else:
                out.append(['some', get_composite(x, ft) if comp else scalar_from_py(ft, x)])
        else:
            x = getattr(obj, fname)
            if ft[0] == 'byte':
                if isinstance(x, str):      # a never-assigned non-fixed bytes field holds the str ''
                    x = x.encode('latin-1')
                out.append(['list', list(bytearray(x))])
            elif comp:
                out.append(['list', [get_composite(e, ft) for e in x]])
            else:
                out.append(['list', [scalar_from_py(ft, e) for e in x]])
    return ['struct', out]


def compile_schema(text, workdir, name, extra_args=()):
    import prophyc
    src = os.path.join(workdir, name + '.prophy')
    with open(src, 'w') as f:
        f.write(text)
    err = io.StringIO()
    try:
        with contextlib.redirect_stderr(err), contextlib.redirect_stdout(io.StringIO()):
            nodes = prophyc.main(['--python_out', workdir] + list(extra_args) + [src])
    except SystemExit as e:
        return None, 'SystemExit:%s:%s' % (e.code, err.getvalue()[-300:])
    except Exception as e:  # noqa
        return None, '%s:%s' % (exc_name(e), str(e)[-300:])
    return nodes, None


def import_module(workdir, name):
    path = os.path.join(workdir, name + '.py')
    spec = importlib.util.spec_from_file_location('gen_' + name, path)
    mod = importlib.util.module_from_spec(spec)
    spec.loader.exec_module(mod)
    return mod


def model_info(nodes, name):
    import prophyc.model as M
    info = {}
    for n in nodes[name]:
        if isinstance(n, (M.Struct, M.Union)):
            d = {'size': n.byte_size, 'align': n.alignment, 'kind': n.kind}
            if isinstance(n, M.Struct):
                d['members'] = [[m.name, m.byte_size, m.alignment, m.padding, m.kind] for m in n.members]
            info[n.name] = d
    return info


def statics(mod, t):
    out = {}
    for d in S.decls(t):
        if d[0] in ('struct', 'union'):
            c = getattr(mod, d[1])
            out[d[1]] = {'size': c._SIZE, 'align': c._ALIGNMENT, 'dynamic': bool(c._DYNAMIC),
                         'unlimited': bool(c._UNLIMITED)}
    return out


def run_job(job, workdir):
    res = {'id': job['id']}
    t = S.from_json(job['schema'])
    name = 'm%s' % job['id']
    nodes, err = compile_schema(job['text'], workdir, name)
    if err:
        res['compile_error'] = err
        return res
    want = job.get('want', ['encode'])
    if 'model' in want:
        try:
            res['model'] = model_info(nodes, name)
        except Exception as e:  # noqa
            res['model_error'] = exc_name(e)
    try:
        mod = import_module(workdir, name)
    except BaseException as e:  # noqa
        res['import_error'] = '%s:%s' % (exc_name(e), str(e)[-200:])
        return res
    cls = getattr(mod, t[1])
    if 'statics' in want:
        res['statics'] = statics(mod, t)
    if 'fresh' in want:
        # messages nobody touched: one encoded '<' then '>', another one '>' then '<' (same process, same classes)
        fr = {}
        for tag, order in (('a', '<>'), ('b', '><')):
            try:
                msg = cls()
                for e in order:
                    try:
                        fr[tag + e] = bytearray(msg.encode(e)).hex()
                    except BaseException as ex:  # noqa
                        fr[tag + e] = 'EXC:' + exc_name(ex)
            except BaseException as ex:  # noqa
                fr[tag] = 'EXC:' + exc_name(ex)
        res['fresh'] = fr
    res['values'] = []
    for vj in job.get('values', []):
        v = S.value_from_json(vj)
        r = {}
        try:
            msg = cls()
            set_struct(msg, t, v)
        except BaseException as e:  # noqa
            r['set_error'] = exc_name(e)
            res['values'].append(r)
            continue
        for e in '<>':
            try:
                r[e] = bytearray(msg.encode(e)).hex()
            except BaseException as ex:  # noqa
                r[e] = 'EXC:' + exc_name(ex)
        if 'roundtrip' in want:
            for e in '<>':
                if r[e].startswith('EXC:'):
                    continue
                r['rt' + e] = decode_one(cls, t, e, bytes(bytearray.fromhex(r[e])))
        if 'str' in want:
            try:
                r['str'] = str(msg)
            except BaseException as ex:  # noqa
                r['str'] = 'EXC:' + exc_name(ex)
        res['values'].append(r)
    if 'histories' in job:
        res['histories'] = []
        for ops in job['histories']:
            try:
                res['histories'].append(run_history(cls, t, ops))
            except BaseException as ex:  # noqa
                res['histories'].append({'harness_error': '%s:%s' % (exc_name(ex), str(ex)[-200:])})
    if 'decode' in job:
        res['decode'] = [decode_one(cls, t, e, bytes(bytearray.fromhex(h)), fixpoint=True) for e, h in job['decode']]
    return res


def count_elements(v):
    if isinstance(v, list):
        if v and v[0] == 'list':
            return len(v[1]) + sum(count_elements(x) for x in v[1])
        if v and v[0] == 'struct':
            return sum(count_elements(x) for x in v[1])
        if v and v[0] == 'some':
            return count_elements(v[1])
        if v and v[0] == 'union':
            return count_elements(v[2])
    return 0


def decode_one(cls, t, e, data, fixpoint=False):
    import time
    r = {}
    t0 = time.time()
    try:
        m2 = cls()
        r['consumed'] = m2.decode(data, e)
    except BaseException as ex:  # noqa
        r['exc'] = exc_name(ex)
        r['time'] = time.time() - t0
        return r
    r['time'] = time.time() - t0
    try:
        r['value'] = get_struct(m2, t)
        r['elements'] = count_elements(r['value'])
    except BaseException as ex:  # noqa
        r['get_exc'] = exc_name(ex)
    try:
        reenc = m2.encode(e)
        r['reenc'] = bytearray(reenc).hex()
    except BaseException as ex:  # noqa
        r['reenc'] = 'EXC:' + exc_name(ex)
        return r
    if fixpoint:
        try:
            m3 = cls()
            c3 = m3.decode(reenc, e)
            v3 = get_struct(m3, t)
            b3 = m3.encode(e)
            r['fix'] = {'consumed_all': c3 == len(reenc), 'same_value': v3 == r.get('value'), 'same_bytes': b3 == reenc}
        except BaseException as ex:  # noqa
            r['fix'] = {'exc': exc_name(ex)}
    return r


def main():
    jobs = json.load(sys.stdin)
    workdir = tempfile.mkdtemp(prefix='pyw-', dir=os.environ.get('VERIF_WORKDIR'))
    out = []
    try:
        for job in jobs:
            try:
                out.append(run_job(job, workdir))
            except BaseException as e:  # noqa
                out.append({'id': job['id'], 'worker_error': '%s:%s' % (exc_name(e), str(e)[-300:])})
    finally:
        shutil.rmtree(workdir, ignore_errors=True)
    json.dump(out, sys.stdout)



# ---------------------------------------------------------------------------------------------
# API histories (C10, C11): a list of operations applied to two fresh messages 'a' and 'b'
# of the root type; after every operation the exception class (if any) and the observable
# state of both messages are recorded.

def _pyval(x, t, arm_names=None):
    k = x[0]
    if k == 'int':
        return x[1]
    if k == 'bool':
        return bool(x[1])
    if k == 'float':
        return bits_to_float('r32' if x[1] == 4 else 'r64', x[2])
    if k == 'floathuge':
        return bits_to_float('r64', x[1])
    if k == 'str':
        if arm_names is not None:
            return arm_names[x[1]] if 0 <= x[1] < len(arm_names) else 'no_such_arm'
        if t is not None and t[0] == 'enum' and 0 <= x[1] < len(t[2]):
            return t[2][x[1]][0]
        return 'no_such_name'
    if k == 'bytes':
        return bytes(bytearray(x[1]))
    if k == 'none':
        return None
    if k == 'list':
        return [_pyval(e, t) for e in x[1]]
    if k == 'iter':
        return iter([_pyval(e, t) for e in x[1]])
    raise ValueError(x)


def _navigate(obj, t, path):
    for s in path:
        if t[0] == 'struct':
            fname, k, ft = t[2][s[1]]
            if s[0] == 'f':
                obj = getattr(obj, fname)
            else:
                obj = getattr(obj, fname)[s[2]]
            t = ft
        else:
            disc, aname, at = t[2][s[1]]
            obj = getattr(obj, aname)
            t = at
    return obj, t


def _slice(a, b, step=None):
    return slice(a, b, step)


def apply_op(roots, t, op):
    obj, ot = _navigate(roots[op.get('root', 'a')], t, op.get('path', []))
    kind = op['op']
    if kind == 'copy':
        roots[op['dst']].copy_from(roots[op['src']])
        return
    if kind == 'extend_from':
        src, st = _navigate(roots[op['src_root']], t, op['src_path'])
        sname = st[2][op['src_i']][0]
        dname = ot[2][op['i']][0]
        getattr(obj, dname).extend(getattr(src, sname)[:])
        return
    if kind == 'disc':
        obj.discriminator = _pyval(op['x'], None, arm_names=[a[1] for a in ot[2]])
        return
    if ot[0] == 'union':
        disc, aname, at = ot[2][op['i']]
        setattr(obj, aname, _pyval(op['x'], at))
        return
    fname, k, ft = ot[2][op['i']]
    if kind == 'set':
        setattr(obj, fname, _pyval(op['x'], ft))
        return
    arr = getattr(obj, fname)
    if kind == 'append':
        arr.append(_pyval(op['x'], ft))
    elif kind == 'insert':
        arr.insert(op['idx'], _pyval(op['x'], ft))
    elif kind == 'extend':
        arr.extend(_pyval(op['x'], ft))
    elif kind == 'setitem':
        arr[op['idx']] = _pyval(op['x'], ft)
    elif kind == 'setslice':
        arr[_slice(op['a'], op['b'], op.get('step'))] = _pyval(op['x'], ft)
    elif kind == 'delitem':
        del arr[op['idx']]
    elif kind == 'delslice':
        del arr[_slice(op['a'], op['b'])]
    elif kind == 'remove':
        arr.remove(_pyval(op['x'], ft))
    elif kind == 'add':
        arr.add(**dict((ft[2][j][0], _pyval(x, ft[2][j][2])) for j, x in op.get('kw', [])))
    else:
        raise ValueError(kind)


def run_history(cls, t, ops):
    roots = {'a': cls(), 'b': cls()}
    out = []
    for op in ops:
        r = {}
        try:
            apply_op(roots, t, op)
        except BaseException as ex:  # noqa
            r['exc'] = exc_name(ex)
        try:
            ra = get_struct(roots['a'], t)
            rb = get_struct(roots['b'], t)
            r['a'], r['b'] = ra, rb
        except BaseException as ex:  # noqa
            r['get_exc'] = '%s:%s' % (exc_name(ex), str(ex)[-200:])
        out.append(r)
    final = {}
    for name in 'ab':
        try:
            final[name] = bytearray(roots[name].encode('<')).hex()
        except BaseException as ex:  # noqa
            final[name] = 'EXC:' + exc_name(ex)
    return {'steps': out, 'final_encode': final}


if __name__ == '__main__':
    main()
