"""Runs the real implementation (prophyc + the prophy Python runtime from $PYTHONPATH) on a
batch of jobs read as JSON from stdin; writes JSON results to stdout.

job = {"id":..., "schema": <schema json>, "text": <prophy text>, "root": <struct name>,
       "values": [<value json>...], "decode": [[endian, hex]...], "want": [...]}
Every exception is reported by class name only."""
import importlib.util
import json
import os
import struct as pystruct
import sys
import tempfile
import shutil
import io
import contextlib

sys.path.insert(0, os.path.dirname(os.path.abspath(__file__)))
import schema as S  # noqa: E402


def exc_name(e):
    return type(e).__name__


def bits_to_float(n, bits):
    if n == 'r32':
        return pystruct.unpack('<f', pystruct.pack('<I', bits))[0]
    return pystruct.unpack('<d', pystruct.pack('<Q', bits))[0]


def float_to_bits(n, x):
    if n == 'r32':
        return pystruct.unpack('<I', pystruct.pack('<f', x))[0]
    return pystruct.unpack('<Q', pystruct.pack('<d', x))[0]


def scalar_to_py(t, z):
    if t[0] == 'scalar' and t[1] in ('r32', 'r64'):
        return bits_to_float(t[1], z)
    return z


def scalar_from_py(t, x):
    if t[0] == 'scalar' and t[1] in ('r32', 'r64'):
        return float_to_bits(t[1], x)
    return int(x)


def set_composite(obj, t, v):
    if t[0] == 'struct':
        set_struct(obj, t, v)
    else:
        set_union(obj, t, v)


def set_union(obj, t, v):
    _, i, x = v
    disc, aname, at = t[2][i]
    obj.discriminator = disc
    if at[0] in ('struct', 'union'):
        set_composite(getattr(obj, aname), at, x)
    else:
        setattr(obj, aname, scalar_to_py(at, x))


def set_struct(obj, t, v):
    fields = t[2]
    sizers = set(k[-1] for _, k, _ in fields if k[0] in ('bound', 'limited'))
    for i, ((fname, k, ft), x) in enumerate(zip(fields, v[1])):
        if i in sizers:
            continue
        comp = ft[0] in ('struct', 'union')
        if k[0] == 'plain':
            if comp:
                set_composite(getattr(obj, fname), ft, x)
            else:
                setattr(obj, fname, scalar_to_py(ft, x))
        elif k[0] == 'opt':
            if x is None:
                setattr(obj, fname, None)
            elif comp:
                setattr(obj, fname, True)
                set_composite(getattr(obj, fname), ft, x[1])
            else:
                setattr(obj, fname, scalar_to_py(ft, x[1]))
        else:
            xs = x[1]
            if ft[0] == 'byte':
                setattr(obj, fname, bytes(bytearray(xs)))
            elif comp:
                arr = getattr(obj, fname)
                if k[0] == 'fixed':
                    for e, xe in zip(arr, xs):
                        set_composite(e, ft, xe)
                else:
                    for xe in xs:
                        set_composite(arr.add(), ft, xe)
            else:
                getattr(obj, fname)[:] = [scalar_to_py(ft, e) for e in xs]


def get_composite(obj, t):
    return get_struct(obj, t) if t[0] == 'struct' else get_union(obj, t)


def get_union(obj, t):
    d = obj.discriminator
    for i, (disc, aname, at) in enumerate(t[2]):
        if disc == d:
            x = getattr(obj, aname)
            if at[0] in ('struct', 'union'):
                return ['union', i, get_composite(x, at)]
            return ['union', i, scalar_from_py(at, x)]
    raise RuntimeError("discriminator not in schema")


def get_struct(obj, t):
    fields = t[2]
    sizers = {}
    for j, (_, k, _) in enumerate(fields):
        if k[0] in ('bound', 'limited') and k[-1] not in sizers:
            sizers[k[-1]] = j
    out = []
    for i, (fname, k, ft) in enumerate(fields):
        comp = ft[0] in ('struct', 'union')
        if i in sizers:
            out.append(len(getattr(obj, fields[sizers[i]][0])))
        elif k[0] == 'plain':
            x = getattr(obj, fname)
            out.append(get_composite(x, ft) if comp else scalar_from_py(ft, x))
        elif k[0] == 'opt':
            x = getattr(obj, fname)
            if x is None:
                out.append(None)
            else:
                out.append(['some', get_composite(x, ft) if comp else scalar_from_py(ft, x)])
        else:
            x = getattr(obj, fname)
            if ft[0] == 'byte':
                out.append(['list', list(bytearray(x))])
            elif comp:
                out.append(['list', [get_composite(e, ft) for e in x]])
            else:
                out.append(['list', [scalar_from_py(ft, e) for e in x]])
    return ['struct', out]


def compile_schema(text, workdir, name, extra_args=()):
    import prophyc
    src = os.path.join(workdir, name + '.prophy')
    with open(src, 'w') as f:
        f.write(text)
    err = io.StringIO()
    try:
        with contextlib.redirect_stderr(err), contextlib.redirect_stdout(io.StringIO()):
            nodes = prophyc.main(['--python_out', workdir] + list(extra_args) + [src])
    except SystemExit as e:
        return None, 'SystemExit:%s:%s' % (e.code, err.getvalue()[-300:])
    except Exception as e:  # noqa
        return None, '%s:%s' % (exc_name(e), str(e)[-300:])
    return nodes, None


def import_module(workdir, name):
    path = os.path.join(workdir, name + '.py')
    spec = importlib.util.spec_from_file_location('gen_' + name, path)
    mod = importlib.util.module_from_spec(spec)
    spec.loader.exec_module(mod)
    return mod


def model_info(nodes, name):
    import prophyc.model as M
    info = {}
    for n in nodes[name]:
        if isinstance(n, (M.Struct, M.Union)):
            d = {'size': n.byte_size, 'align': n.alignment, 'kind': n.kind}
            if isinstance(n, M.Struct):
                d['members'] = [[m.name, m.byte_size, m.alignment, m.padding, m.kind] for m in n.members]
            info[n.name] = d
    return info


def statics(mod, t):
    out = {}
    for d in S.decls(t):
        if d[0] in ('struct', 'union'):
            c = getattr(mod, d[1])
            out[d[1]] = {'size': c._SIZE, 'align': c._ALIGNMENT, 'dynamic': bool(c._DYNAMIC),
                         'unlimited': bool(c._UNLIMITED)}
    return out


def run_job(job, workdir):
    res = {'id': job['id']}
    t = S.from_json(job['schema'])
    name = 'm%s' % job['id']
    nodes, err = compile_schema(job['text'], workdir, name)
    if err:
        res['compile_error'] = err
        return res
    want = job.get('want', ['encode'])
    if 'model' in want:
        try:
            res['model'] = model_info(nodes, name)
        except Exception as e:  # noqa
            res['model_error'] = exc_name(e)
    try:
        mod = import_module(workdir, name)
    except BaseException as e:  # noqa
        res['import_error'] = '%s:%s' % (exc_name(e), str(e)[-200:])
        return res
    cls = getattr(mod, t[1])
    if 'statics' in want:
        res['statics'] = statics(mod, t)
    res['values'] = []
    for vj in job.get('values', []):
        v = S.value_from_json(vj)
        r = {}
        try:
            msg = cls()
            set_struct(msg, t, v)
        except BaseException as e:  # noqa
            r['set_error'] = exc_name(e)
            res['values'].append(r)
            continue
        for e in '<>':
            try:
                r[e] = bytearray(msg.encode(e)).hex()
            except BaseException as ex:  # noqa
                r[e] = 'EXC:' + exc_name(ex)
        if 'roundtrip' in want:
            for e in '<>':
                if r[e].startswith('EXC:'):
                    continue
                r['rt' + e] = decode_one(cls, t, e, bytes(bytearray.fromhex(r[e])))
        if 'str' in want:
            try:
                r['str'] = str(msg)
            except BaseException as ex:  # noqa
                r['str'] = 'EXC:' + exc_name(ex)
        res['values'].append(r)
    if 'decode' in job:
        res['decode'] = [decode_one(cls, t, e, bytes(bytearray.fromhex(h)), fixpoint=True) for e, h in job['decode']]
    return res


def count_elements(v):
    if isinstance(v, list):
        if v and v[0] == 'list':
            return len(v[1]) + sum(count_elements(x) for x in v[1])
        if v and v[0] == 'struct':
            return sum(count_elements(x) for x in v[1])
        if v and v[0] == 'some':
            return count_elements(v[1])
        if v and v[0] == 'union':
            return count_elements(v[2])
    return 0


def decode_one(cls, t, e, data, fixpoint=False):
    import time
    r = {}
    t0 = time.time()
    try:
        m2 = cls()
        r['consumed'] = m2.decode(data, e)
    except BaseException as ex:  # noqa
        r['exc'] = exc_name(ex)
        r['time'] = time.time() - t0
        return r
    r['time'] = time.time() - t0
    try:
        r['value'] = get_struct(m2, t)
        r['elements'] = count_elements(r['value'])
    except BaseException as ex:  # noqa
        r['get_exc'] = exc_name(ex)
    try:
        reenc = m2.encode(e)
        r['reenc'] = bytearray(reenc).hex()
    except BaseException as ex:  # noqa
        r['reenc'] = 'EXC:' + exc_name(ex)
        return r
    if fixpoint:
        try:
            m3 = cls()
            c3 = m3.decode(reenc, e)
            v3 = get_struct(m3, t)
            b3 = m3.encode(e)
            r['fix'] = {'consumed_all': c3 == len(reenc), 'same_value': v3 == r.get('value'), 'same_bytes': b3 == reenc}
        except BaseException as ex:  # noqa
            r['fix'] = {'exc': exc_name(ex)}
    return r


def main():
    jobs = json.load(sys.stdin)
    workdir = tempfile.mkdtemp(prefix='pyw-', dir=os.environ.get('VERIF_WORKDIR'))
    out = []
    try:
        for job in jobs:
            try:
                out.append(run_job(job, workdir))
            except BaseException as e:  # noqa
                out.append({'id': job['id'], 'worker_error': '%s:%s' % (exc_name(e), str(e)[-300:])})
    finally:
        shutil.rmtree(workdir, ignore_errors=True)
    json.dump(out, sys.stdout)


if __name__ == '__main__':
    main()
