"""Predicates naming the input class of a known finding (used by known_findings.json entries
through {"match": {"predicate": "<name>"}}). Each takes the case description (a dict that
contains at least "schema", the schema tuple/JSON of the failing case) and returns bool."""
import schema as S


def _decls(case):
    return S.decls(S.from_json(case["schema"]))


def _contains_vector(t):
    """does the generated C++ full-codec class of fixed type t contain a std::vector (limited
    array or limited bytes), directly or through nested members"""
    if t[0] == "struct":
        for _, k, ft in t[2]:
            if k[0] in ("limited", "bound", "greedy"):
                return True
            if _contains_vector(ft):
                return True
    elif t[0] == "union":
        return any(_contains_vector(at) for _, _, at in t[2])
    return False


def _wire_align(t):
    if t[0] == "scalar":
        return S.SIZE[t[1]]
    if t[0] == "byte":
        return 1
    if t[0] == "enum":
        return 4
    if t[0] == "struct":
        a = 1
        for _, k, ft in t[2]:
            fa = _wire_align(ft)
            if k[0] == "opt":
                fa = max(4, fa)
            a = max(a, fa)
        return a
    if t[0] == "union":
        return max([4] + [_wire_align(at) for _, _, at in t[2]])
    raise ValueError(t)


def optional_of_struct_with_vector(case):
    """an optional member whose value type's C++ class holds a std::vector (8-byte C++
    alignment) while its wire alignment is below 8: the C++ runtime pads flag -> value by the
    C++ object alignment"""
    for d in _decls(case):
        if d[0] == "struct":
            for _, k, ft in d[2]:
                if k[0] == "opt" and ft[0] in ("struct", "union") and _contains_vector(ft) and _wire_align(ft) < 8:
                    return True
    return False


def _parts(fields):
    parts, cur = [], []
    for f in fields:
        cur.append(f)
        _, k, ft = f
        if k[0] in ("bound", "greedy") or (k[0] == "plain" and S.stiffness(ft) >= 1):
            parts.append(cur)
            cur = []
    if cur:
        parts.append(cur)
    return parts


def _falign(f):
    _, k, ft = f
    a = _wire_align(ft)
    return max(4, a) if k[0] == "opt" else a


def swap_part_over_aligned(case):
    """a struct whose block (part) after a dynamic field has a greater alignment than the block
    following it: the generated part swap rounds its end up to its own alignment"""
    for d in _decls(case):
        if d[0] == "struct":
            parts = _parts(d[2])
            aligns = [max(_falign(f) for f in p) for p in parts]
            for i in range(1, len(parts) - 1):
                if aligns[i] > aligns[i + 1]:
                    return True
    return False


def swap_greedy_tail_return_rounded(case):
    """swap of a message with a greedy tail converted the right bytes and touched nothing else, but returned the
    unlimited member's offset rounded up to the root struct's alignment instead of the offset itself"""
    if not str(case.get("kind", "")).startswith("swap of a message with a greedy tail"):
        return False
    off, ret = case.get("unlimited_member_offset"), case.get("ret")
    if off is None or ret is None or not case.get("bytes_ok") or not case.get("canary_ok"):
        return False
    a = _wire_align(S.from_json(case["schema"]))
    return ret != off and ret == -(-off // a) * a


def enum_out_of_range_ubsan(case):
    return "not a valid value for type" in str(case.get("crash", ""))


def has_nonfixed_bytes_field(case):
    """some struct of the schema has a dynamic, limited or greedy bytes field (whose default value is the str '')"""
    for d in _decls(case):
        if d[0] == "struct":
            for _, k, ft in d[2]:
                if ft[0] == "byte" and k[0] in ("bound", "limited", "greedy"):
                    return True
    return False


def counter_narrower_than_count(case):
    """some counted array of the reached state holds more elements than its counter's type can represent"""
    def walk(t, v):
        if t[0] == "struct":
            for (fname, k, ft), x in zip(t[2], v[1]):
                if k[0] in ("bound", "limited"):
                    st = t[2][k[-1]][2]
                    if st[0] == "scalar" and len(x[1]) > S.srange(st[1])[1]:
                        return True
                if ft[0] in ("struct", "union"):
                    if k[0] == "plain" and walk(ft, x):
                        return True
                    if k[0] == "opt" and x is not None and walk(ft, x[1]):
                        return True
                    if k[0] in ("fixed", "bound", "limited", "greedy") and any(walk(ft, e) for e in x[1]):
                        return True
        elif t[0] == "union":
            at = t[2][v[1]][2]
            return at[0] in ("struct", "union") and walk(at, v[2])
        return False
    try:
        return walk(S.from_json(case["schema"]), S.value_from_json(case["state"]))
    except Exception:
        return False


PREDICATES = {f.__name__: f for f in (optional_of_struct_with_vector, swap_part_over_aligned, swap_greedy_tail_return_rounded,
                                        enum_out_of_range_ubsan,
                                        has_nonfixed_bytes_field, counter_narrower_than_count)}
