"""Common flow of every property check:

  1. regenerate coq/gen/Src.v from /repo (tools/translate.py) and rebuild the property's
     theorem file with everything it depends on (full .vo build through make); collect
     `Print Assumptions`, scan the development for forbidden constructs;
  2. corpus + correspondence (model vs implementation) + property oracle (spec vs implementation)
     — done by the property's own script, which calls back into this class;
  3. verdict, evidence, exit code.

A broken proof / translator / correspondence is reported as a VIOLATION (with
`no-failing-input-found` when the intensified search finds no failing input)."""
import json
import os
import re
import subprocess
import sys
import time

import common
from common import COQ, VERIF, PY

FORBIDDEN = re.compile(r"\b(Admitted|admit|Axiom|Parameter|Conjecture|Hypothesis|Variables?|bypass_check)\b|Unset Guard|type-in-type|impredicative-set|Admit Obligations")


def coq_sources():
    out = []
    for d in ("base", "spec", "model", "proofs", "props"):
        dd = os.path.join(COQ, d)
        if os.path.isdir(dd):
            for f in sorted(os.listdir(dd)):
                if f.endswith(".v"):
                    out.append(os.path.join(dd, f))
    return out


def scan_forbidden():
    """Section `Variable`s are allowed (they are discharged); anything else listed is not."""
    bad = []
    for p in coq_sources():
        depth = 0
        with open(p) as f:
            text = f.read()
        text = re.sub(r"\(\*.*?\*\)", "", text, flags=re.S)
        for ln, line in enumerate(text.split("\n"), 1):
            if re.match(r"\s*Section\b", line):
                depth += 1
            if re.match(r"\s*End\b", line) and depth > 0:
                depth -= 1
            m = FORBIDDEN.search(line)
            if m:
                word = m.group(0)
                if word in ("Variable", "Variables", "Hypothesis") and depth > 0:
                    continue
                bad.append("%s:%d: %s" % (os.path.relpath(p, VERIF), ln, word))
    return bad


def dep_cone(vfile):
    """files of the development the given .v file transitively depends on (via coqdep)"""
    p = subprocess.run(["coqdep"] + common.COQ_FLAGS + ["-sort"] + [os.path.relpath(f, COQ) for f in coq_sources()]
                       + ["gen/Src.v"], cwd=COQ, capture_output=True, text=True)
    # fall back to "all files before it in dependency order" when -sort output is unusable
    order = p.stdout.split()
    deps = subprocess.run(["coqdep"] + common.COQ_FLAGS + [os.path.relpath(f, COQ) for f in coq_sources()] + ["gen/Src.v"],
                          cwd=COQ, capture_output=True, text=True).stdout
    graph = {}
    for line in deps.split("\n"):
        if ".vo" not in line or ":" not in line:
            continue
        lhs, rhs = line.split(":", 1)
        tgt = [x for x in lhs.split() if x.endswith(".vo")]
        if not tgt:
            continue
        src = tgt[0][:-1]
        graph[src] = [x[:-1] for x in rhs.split() if x.endswith(".vo")]
    seen = set()
    stack = [os.path.relpath(vfile, COQ)]
    while stack:
        x = stack.pop()
        x = x[2:] if x.startswith("./") else x
        if x in seen:
            continue
        seen.add(x)
        stack.extend(graph.get(x, []))
    return sorted(seen), order


def count_obligations(files):
    n = 0
    names = []
    for rel in files:
        p = os.path.join(COQ, rel)
        if not os.path.exists(p):
            continue
        with open(p) as f:
            text = re.sub(r"\(\*.*?\*\)", "", f.read(), flags=re.S)
        for m in re.finditer(r"^\s*(Theorem|Lemma|Corollary|Example|Fact|Proposition)\s+([A-Za-z0-9_']+)", text, re.M):
            n += 1
            names.append(m.group(2))
    return n, names


# which families of translated sources (tools/translate.py: py = prophy/*.py, pc = prophyc/model.py, cpp = prophy_cpp
# headers, prec = parser precedence tables) the theorems and model correspondences of each property depend on
FAMILIES = {
    "C01": "py", "C02": "py", "C06": "py", "C10": "py", "C11": "py",
    "C03": "py,pc,cpp", "C19": "py,pc,cpp", "C04": "py,pc",
    "C05": "pc,cpp", "C07": "pc,cpp", "C09": "pc,cpp", "C08": "pc",
    "C14": "prec",
    "C12": "py,pc,cpp", "C13": "", "C15": "", "C16": "", "C17": "", "C18": "", "C20": "",
}


class Check(object):
    def __init__(self, pid, design_ref=""):
        self.pid = pid
        self.tier = common.tier()
        self.seed = common.seed()
        self.timer = common.Timer()
        self.violations = 0
        self.known_hits = {}
        self.known = [k for k in common.load_known_findings() if k["property"] == pid and k.get("status") == "known"]
        self.coverage = {"samples": [], "evaluations": 0, "distinct_nontrivial": 0}
        self.assumptions = []
        self.proof_ok = None
        self.proof_problem = None
        self.classes = set()
        self.replay_mode = None
        if "--replay" in sys.argv:
            self.replay_mode = sys.argv[sys.argv.index("--replay") + 1]

    # ---------------------------------------------------------------- step 1: proofs
    def build(self, props_file=None, timeout=1500):
        """translate + make the property's theorem file; returns True when every obligation
        in its dependency cone is discharged and its assumptions are closed"""
        props_file = props_file or os.path.join(COQ, "props", self.pid + ".v")
        rel = os.path.relpath(props_file, COQ)
        # the source families this property is about are translated from the current tree (fail-closed); the other
        # sections of gen/Src.v come from the reference translation of the unchanged tree (see tools/translate.py),
        # so that a change confined to sources the property does not depend on cannot break its obligations
        fams = FAMILIES.get(self.pid, "all")
        env = dict(common.impl_env(), VERIF_FAMILIES=fams if fams else "none")
        self.coverage["translated_families"] = fams if fams else "none (reference translation only: no theorem of this property depends on translated sources)"
        t = subprocess.run([PY, os.path.join(VERIF, "tools", "translate.py")], capture_output=True, text=True, env=env)
        problem = None
        if t.returncode != 0:
            problem = {"stage": "translator", "detail": t.stderr.strip()[-2000:]}
        if problem is None:
            if not os.path.exists(os.path.join(COQ, "Makefile")):
                subprocess.run(["coq_makefile", "-f", "_CoqProject", "-o", "Makefile"], cwd=COQ, capture_output=True)
            target = rel[:-2] + ".vo"
            try:
                m = subprocess.run(["make", "-j%d" % common.NPROC, target, "model/CheckLib.vo"], cwd=COQ,
                                   capture_output=True, text=True, timeout=timeout)
                if m.returncode != 0:
                    err = (m.stdout + m.stderr)
                    mm = re.search(r'File "\./([^"]+)", line (\d+)', err)
                    where = "%s:%s" % (mm.group(1), mm.group(2)) if mm else "?"
                    lemma = self._lemma_at(mm.group(1), int(mm.group(2))) if mm else None
                    problem = {"stage": "proof", "file_line": where, "lemma": lemma,
                               "detail": err.strip()[-1500:]}
            except subprocess.TimeoutExpired:
                problem = {"stage": "proof", "detail": "make timed out after %ds" % timeout}
        if problem is not None:
            # the obligation is broken and will be reported; to be able to *search for a failing input* the models,
            # the spec and CheckLib are rebuilt over the committed reference translation of the unchanged tree
            # (coq/ref/Src.v), so that the differential run below still has its Coq oracle
            ref = os.path.join(COQ, "ref", "Src.v")
            gen = os.path.join(COQ, "gen", "Src.v")
            if os.path.exists(ref):
                try:
                    with open(ref) as f:
                        reftext = f.read()
                    with open(gen, "w") as f:
                        f.write(reftext.replace("(* GENERATED", "(* REFERENCE COPY (search aid after a broken obligation) GENERATED", 1))
                    m2 = subprocess.run(["make", "-j%d" % common.NPROC, "model/CheckLib.vo"], cwd=COQ, capture_output=True, text=True,
                                        timeout=timeout)
                    problem["oracle_rebuilt_on_reference_src"] = (m2.returncode == 0)
                except (OSError, subprocess.TimeoutExpired):
                    problem["oracle_rebuilt_on_reference_src"] = False
        assumptions = []
        if problem is None:
            # recompile the props file alone to read its Print Assumptions output
            c = subprocess.run(["coqc"] + common.COQ_FLAGS + [rel], cwd=COQ, capture_output=True, text=True, timeout=600)
            if c.returncode != 0:
                problem = {"stage": "proof", "file_line": rel, "detail": (c.stdout + c.stderr)[-1500:]}
            else:
                blocks = re.split(r"\n(?=Closed under the global context|Axioms:)", "\n" + c.stdout)
                for b in blocks:
                    b = b.strip()
                    if b:
                        assumptions.append(" ".join(b.split())[:400])
                if any(not a.startswith("Closed under the global context") for a in assumptions):
                    problem = {"stage": "assumptions", "detail": "; ".join(assumptions)[:1500]}
        bad = scan_forbidden()
        if bad and problem is None:
            problem = {"stage": "forbidden-construct", "detail": "; ".join(bad)[:1500]}
        cone, _ = dep_cone(props_file)
        nob, names = count_obligations(cone)
        thms = count_obligations([rel])[1]
        self.coverage["obligations"] = nob
        self.coverage["discharged"] = nob if problem is None else 0
        self.coverage["theorems"] = thms
        self.coverage["print_assumptions"] = assumptions
        self.coverage["checker_cmd"] = "cd /verif/coq && /venv/bin/python ../tools/translate.py && make %s.vo && coqc %s  (Coq 8.16.1 kernel; full .vo build)" % (rel[:-2], rel)
        self.coverage["dependency_cone"] = cone
        self.proof_ok = problem is None
        self.proof_problem = problem
        return self.proof_ok

    def _lemma_at(self, rel, line):
        try:
            with open(os.path.join(COQ, rel)) as f:
                lines = f.read().split("\n")
            for i in range(min(line, len(lines)) - 1, -1, -1):
                m = re.match(r"\s*(Theorem|Lemma|Corollary|Example|Definition|Fixpoint)\s+([A-Za-z0-9_']+)", lines[i])
                if m:
                    return m.group(2)
        except OSError:
            pass
        return None

    # ---------------------------------------------------------------- step 2/3 helpers
    def count(self, n=1):
        self.coverage["evaluations"] += n

    def seen_class(self, cls, nontrivial=True):
        if nontrivial:
            self.classes.add(cls)

    def sample(self, obj, limit=5):
        if len(self.coverage["samples"]) < limit:
            self.coverage["samples"].append(obj)

    def match_known(self, case):
        """a known finding matches by its specific input class: every key of its 'match' dict
        must equal (or, for 'contains_*' keys, be contained in) the case's description"""
        for k in self.known:
            m = k.get("match", {})
            ok = True
            for key, val in m.items():
                if key == "predicate":
                    import findings_predicates
                    try:
                        if not findings_predicates.PREDICATES[val](case):
                            ok = False
                    except Exception:  # a predicate that cannot evaluate never suppresses
                        ok = False
                elif key.startswith("contains_"):
                    if val not in json.dumps(case.get(key[len("contains_"):], ""), sort_keys=True):
                        ok = False
                elif case.get(key) != val:
                    ok = False
            if ok and m:
                return k
        return None

    def violation(self, name, case, note="", match=True):
        """report one violating case (unless it is a listed known finding; match=False: a kind of
        failure no known finding describes, never suppressed)"""
        k = self.match_known(case) if match else None
        if k is not None:
            self.known_hits[k["what"]] = self.known_hits.get(k["what"], 0) + 1
            return False
        self.violations += 1
        if self.violations <= 5:
            path = common.write_replay(self.pid, name, case)
            print("VIOLATION property=%s replay=%s %s" % (self.pid, path, note))
            sys.stdout.flush()
        return True

    def finish(self, level="proof", extra_trusted=None, searched_for_input=True):
        # a broken proof obligation with no failing input found is still a violation
        if self.proof_ok is False and self.violations == 0:
            path = common.write_replay(self.pid, "broken-obligation", self.proof_problem)
            self.violations += 1
            print("VIOLATION property=%s replay=%s no-failing-input-found" % (self.pid, path))
        for what, n in sorted(self.known_hits.items()):
            print("KNOWN-FINDING: property=%s %s (%d case%s)" % (self.pid, what, n, "" if n == 1 else "s"))
        self.coverage["distinct_nontrivial"] = len(self.classes)
        tb = [
            "Coq 8.16.1 kernel (coqc, full .vo build via coq_makefile/make; vm_compute used for examples and for evaluating models in the correspondence; no native_compute)",
            "Print Assumptions of every theorem in props/%s.v: see coverage.print_assumptions (expected: Closed under the global context; no axioms)" % self.pid,
            "tools/translate.py (Python-ast translator of source tables and arithmetic kernels into coq/gen/Src.v, fail-closed)",
            "correspondence harness: tools/schema.py generators, tools/pyworker.py driver of the real implementation, comparison evaluated inside Coq by model/CheckLib.v",
            "hand-written models in coq/model are modelled, not verified: their agreement with /repo rests on the correspondence check",
        ] + (extra_trusted or [])
        self.coverage["trusted_base"] = tb
        if self.replay_mode:
            # a replay re-runs one recorded case; it must not overwrite the evidence of a full run
            sys.stdout.flush()
            return 1 if self.violations else 0
        common.write_evidence(self.pid, self.tier, self.seed, level, self.coverage, self.timer.s(), self.violations,
                              self.assumptions)
        sys.stdout.flush()
        return 1 if self.violations else 0
