"""Schema ASTs mirroring coq/spec/Schema.v, their printers (prophy text, Coq terms, JSON),
schema generators (exhaustive-small, random-structured) and value generators.

Types are plain Python tuples so they are hashable and JSON-friendly:
  ('scalar', 'u8')            ('byte',)
  ('enum', name, ((ename, value), ...))
  ('struct', name, (field, ...))     field = (fname, kind, type)
  ('union', name, ((disc, fname, type), ...))
kinds: ('plain',) ('opt',) ('fixed', n) ('bound', sizer_index) ('limited', n, sizer_index) ('greedy',)
Values mirror Coq `value`:
  int | None | ('some', v) | ('list', [v...]) | ('struct', [v...]) | ('union', arm_index, v)
"""
import itertools
import os
import random
import zlib

SCALARS = ['u8', 'u16', 'u32', 'u64', 'i8', 'i16', 'i32', 'i64', 'r32', 'r64']
SIZE = {'u8': 1, 'u16': 2, 'u32': 4, 'u64': 8, 'i8': 1, 'i16': 2, 'i32': 4, 'i64': 8, 'r32': 4, 'r64': 8}
INTS = SCALARS[:8]
TEXTNAME = {'r32': 'float', 'r64': 'double'}


def scalar(n):
    return ('scalar', n)


BYTE = ('byte',)
PLAIN, OPT, GREEDY = ('plain',), ('opt',), ('greedy',)


def is_signed(n):
    return n[0] == 'i'


def srange(n):
    bits = 8 * SIZE[n]
    if n[0] == 'i':
        return -(1 << (bits - 1)), (1 << (bits - 1)) - 1
    return 0, (1 << bits) - 1


# ------------------------------------------------------------------ python-side layout facts
# (only used to steer generation and to classify cases for the evidence; never as an oracle)

def stiffness(t):
    if t[0] != 'struct':
        return 0
    s = 0
    for _, k, ft in t[2]:
        if k[0] == 'plain':
            s = max(s, stiffness(ft))
        elif k[0] == 'bound':
            s = max(s, 1)
        elif k[0] == 'greedy':
            s = 2
    return s


def decls(t, seen=None, out=None):
    """named declarations reachable from t, dependencies first"""
    if seen is None:
        seen, out = set(), []
    if t[0] in ('enum', 'struct', 'union'):
        if t[1] in seen:
            return out
        if t[0] == 'struct':
            for _, _, ft in t[2]:
                decls(ft, seen, out)
        elif t[0] == 'union':
            for _, _, at in t[2]:
                decls(at, seen, out)
        seen.add(t[1])
        out.append(t)
    return out


# ------------------------------------------------------------------ printers

def type_text(t):
    if t[0] == 'scalar':
        return TEXTNAME.get(t[1], t[1])
    if t[0] == 'byte':
        return 'bytes'
    return t[1]


ALIAS_MODE = None      # None: about one member in three; 'all': every member through a two-level typedef; 'none'


def to_prophy_aliased(t, mode='all'):
    """the schema text with every member type behind a typedef chain (rules must not depend on the indirection)"""
    global ALIAS_MODE
    old, ALIAS_MODE = ALIAS_MODE, mode
    try:
        return to_prophy(t)
    finally:
        ALIAS_MODE = old


def alias_chain(owner, fname, t):
    """typedef aliases the text printer puts on a member's type. Deterministic in the names (so every
    printing of one schema is the same text): about one member in three gets a chain of 1..3 typedefs
    declared right before the composite that uses it. Typedefs are transparent for layout, values and
    the API, so nothing else in the harness knows about them; the Coq terms see the target type."""
    if os.environ.get("VERIF_NO_TYPEDEFS") or t[0] == 'byte' or ALIAS_MODE == 'none':
        return []
    h = zlib.crc32(("%s.%s" % (owner, fname)).encode())
    if ALIAS_MODE == 'all':
        return ["Td_%s_%s%s" % (owner, fname, "" if j == 0 else "_%d" % j) for j in range(2)]
    if h % 3 != 0:
        return []
    depth = 1 + (h // 3) % 3
    return ["Td_%s_%s%s" % (owner, fname, "" if j == 0 else "_%d" % j) for j in range(depth)]


def typedef_lines(owner, fname, t):
    names = alias_chain(owner, fname, t)
    out, prev = [], type_text(t)
    for n in names:
        out.append('typedef %s %s;' % (prev, n))
        prev = n
    return out, prev


def sugar_sizers(fields):
    """indices of counter members that the text syntax creates implicitly (x<> and x<n>)"""
    hidden = set()
    for i, (fname, k, ft) in enumerate(fields):
        if k[0] in ('bound', 'limited'):
            s = k[-1]
            sname, sk, st = fields[s]
            users = [j for j, f in enumerate(fields) if f[1][0] in ('bound', 'limited') and f[1][-1] == s]
            if (s == i - 1 and sname == 'num_of_' + fname and st == scalar('u32') and users == [i]):
                hidden.add(s)
            elif k[0] == 'limited':
                raise ValueError("limited array with an explicit sizer is not expressible as text")
    return hidden


def member_text(fields, i, owner=None):
    fname, k, ft = fields[i]
    tt = typedef_lines(owner, fname, ft)[1] if owner else type_text(ft)
    if k[0] == 'plain':
        return '%s %s;' % (tt, fname)
    if k[0] == 'opt':
        return '%s* %s;' % (tt, fname)
    if k[0] == 'fixed':
        return '%s %s[%d];' % (tt, fname, k[1])
    if k[0] == 'greedy':
        return '%s %s<...>;' % (tt, fname)
    hidden = sugar_sizers(fields)
    if k[0] == 'bound':
        if k[1] in hidden:
            return '%s %s<>;' % (tt, fname)
        return '%s %s<@%s>;' % (tt, fname, fields[k[1]][0])
    if k[0] == 'limited':
        return '%s %s<%d>;' % (tt, fname, k[1])
    raise ValueError(k)


def decl_text(d):
    if d[0] == 'enum':
        return 'enum %s\n{\n%s\n};\n' % (d[1], ',\n'.join('    %s = %d' % m for m in d[2]))
    if d[0] == 'struct':
        hidden = sugar_sizers(d[2])
        tds = [l for i, (fname, k, ft) in enumerate(d[2]) if i not in hidden for l in typedef_lines(d[1], fname, ft)[0]]
        lines = ['    ' + member_text(d[2], i, d[1]) for i in range(len(d[2])) if i not in hidden]
        return ''.join(l + '\n' for l in tds) + 'struct %s\n{\n%s\n};\n' % (d[1], '\n'.join(lines))
    if d[0] == 'union':
        tds = [l for disc, an, at in d[2] for l in typedef_lines(d[1], an, at)[0]]
        return ''.join(l + '\n' for l in tds) + 'union %s\n{\n%s\n};\n' % (
            d[1], '\n'.join('    %d: %s %s;' % (disc, typedef_lines(d[1], an, at)[1], an) for disc, an, at in d[2]))
    raise ValueError(d)


def to_prophy(t):
    return '\n'.join(decl_text(d) for d in decls(t))


COQ_SK = {n: n.upper() for n in SCALARS}


def zlit(z):
    return '(%d)' % z if z < 0 else '%d' % z


def kind_coq(k):
    if k[0] == 'plain':
        return 'FPlain'
    if k[0] == 'opt':
        return 'FOpt'
    if k[0] == 'fixed':
        return '(FFixed %d)' % k[1]
    if k[0] == 'bound':
        return '(FBound %d%%nat)' % k[1]
    if k[0] == 'limited':
        return '(FLimited %d %d%%nat)' % (k[1], k[2])
    if k[0] == 'greedy':
        return 'FGreedy'
    raise ValueError(k)


def to_coq(t, names=None):
    """Coq term of type `ty`. With `names` (a dict), composite declarations are emitted once as
    `Definition`s (filled into names: name -> body) and referenced by identifier."""
    if t[0] == 'scalar':
        return '(TScalar %s)' % COQ_SK[t[1]]
    if t[0] == 'byte':
        return 'TByte'
    if t[0] == 'enum':
        body = '(TEnum [%s])' % '; '.join(zlit(v) for _, v in t[2])
    elif t[0] == 'struct':
        body = '(TStruct [%s])' % '; '.join('(%s, %s)' % (kind_coq(k), to_coq(ft, names)) for _, k, ft in t[2])
    elif t[0] == 'union':
        body = '(TUnion [%s])' % '; '.join('(%s, %s)' % (zlit(d), to_coq(at, names)) for d, _, at in t[2])
    else:
        raise ValueError(t)
    if names is None:
        return body
    ident = 'ty_' + t[1]
    if ident not in names:
        names[ident] = body
    return ident


def value_coq(v):
    if v is None:
        return 'VNone'
    if isinstance(v, int):
        return '(VInt %s)' % zlit(v)
    if v[0] == 'some':
        return '(VSome %s)' % value_coq(v[1])
    if v[0] == 'list':
        return '(VList [%s])' % '; '.join(value_coq(x) for x in v[1])
    if v[0] == 'struct':
        return '(VStruct [%s])' % '; '.join(value_coq(x) for x in v[1])
    if v[0] == 'union':
        return '(VUnion %d%%nat %s)' % (v[1], value_coq(v[2]))
    raise ValueError(v)


def text_coq(s):
    return '[%s]' % '; '.join(str(c) for c in s.encode('utf-8'))


def names_coq(t, defs=None):
    """Coq term of type `names` (spec/Text.v) for the type's member / arm / enumerator names; with `defs`
    composite declarations are emitted once as definitions (as in to_coq)"""
    if t[0] in ('scalar', 'byte'):
        return 'NLeaf'
    if t[0] == 'enum':
        body = '(NEnum [%s])' % '; '.join('(%s, %s)' % (zlit(v), text_coq(n)) for n, v in t[2])
    elif t[0] == 'struct':
        body = '(NStruct [%s])' % '; '.join('(%s, %s)' % (text_coq(fn), names_coq(ft, defs)) for fn, _, ft in t[2])
    elif t[0] == 'union':
        body = '(NUnion [%s])' % '; '.join('(%s, %s)' % (text_coq(an), names_coq(at, defs)) for _, an, at in t[2])
    else:
        raise ValueError(t)
    if defs is None:
        return body
    ident = 'nm_' + t[1]
    if ident not in defs:
        defs[ident] = body
    return ident


def bytes_coq(b):
    return '[%s]' % '; '.join(str(x) for x in b)


def to_json(t):
    return t  # tuples serialise as lists; from_json restores tuples


def from_json(j):
    if isinstance(j, list):
        return tuple(from_json(x) for x in j)
    return j


def value_from_json(j):
    if isinstance(j, list):
        if j and j[0] in ('list', 'struct'):
            return (j[0], [value_from_json(x) for x in j[1]])
        if j and j[0] == 'some':
            return ('some', value_from_json(j[1]))
        if j and j[0] == 'union':
            return ('union', j[1], value_from_json(j[2]))
    return j


# ------------------------------------------------------------------ schema builders

class Namer(object):
    def __init__(self, prefix=''):
        self.n = 0
        self.prefix = prefix

    def __call__(self, stem):
        self.n += 1
        return '%s%s%d' % (self.prefix, stem, self.n)


def mk_struct(name, members):
    """members in *source* form: (fname, spec, type) with spec one of
    'plain' 'opt' ('fixed',n) 'dyn' ('limited',n) 'greedy' ('ext', sizer_fname) ('extlim', n, sizer_fname).
    Expands x<> and x<n> into an implicit u32 counter + array, as the text front-end does."""
    fields = []
    index = {}
    for fname, spec, ft in members:
        if spec == 'plain':
            k = PLAIN
        elif spec == 'opt':
            k = OPT
        elif spec == 'greedy':
            k = GREEDY
        elif spec == 'dyn':
            index['num_of_' + fname] = len(fields)
            fields.append(('num_of_' + fname, PLAIN, scalar('u32')))
            k = ('bound', len(fields) - 1)
        elif spec[0] == 'fixed':
            k = ('fixed', spec[1])
        elif spec[0] == 'limited':
            index['num_of_' + fname] = len(fields)
            fields.append(('num_of_' + fname, PLAIN, scalar('u32')))
            k = ('limited', spec[1], len(fields) - 1)
        elif spec[0] == 'ext':
            k = ('bound', index[spec[1]])
        elif spec[0] == 'extlim':
            k = ('limited', spec[1], index[spec[2]])
        else:
            raise ValueError(spec)
        index[fname] = len(fields)
        fields.append((fname, k, ft))
    return ('struct', name, tuple(fields))


def mk_union(name, arms):
    return ('union', name, tuple(arms))


def mk_enum(name, members):
    return ('enum', name, tuple(members))


# ------------------------------------------------------------------ exhaustive-small stream

def basis(nm):
    """member shapes spanning {alignment 1,2,4,8} x {plain, optional, fixed, limited, dynamic,
    nested fixed/dynamic, union, bytes}; returns list of (label, spec, type)"""
    F = mk_struct(nm('F'), [('a', 'plain', scalar('u32')), ('b', 'plain', scalar('u8'))])
    F2 = mk_struct(nm('G'), [('a', 'plain', scalar('u8')), ('b', 'plain', scalar('u16')), ('c', 'plain', scalar('u8'))])
    D = mk_struct(nm('D'), [('x', 'dyn', scalar('u8'))])
    D8 = mk_struct(nm('E'), [('k', 'plain', scalar('u8')), ('x', 'dyn', scalar('u64')), ('t', 'plain', scalar('u8'))])
    U = mk_union(nm('U'), [(0, 'a', scalar('u8')), (1, 'b', scalar('u64'))])
    U4 = mk_union(nm('V'), [(1, 'a', scalar('u16')), (7, 'b', F2)])
    En = mk_enum(nm('En'), [(nm('E_A'), 2), (nm('E_B'), 3), (nm('E_C'), 0xFFFFFFFF)])
    return [
        ('u8', 'plain', scalar('u8')),
        ('u16', 'plain', scalar('u16')),
        ('i32', 'plain', scalar('i32')),
        ('u64', 'plain', scalar('u64')),
        ('enum', 'plain', En),
        ('opt_u8', 'opt', scalar('u8')),
        ('opt_u64', 'opt', scalar('u64')),
        ('opt_G', 'opt', F2),
        ('fix_u16', ('fixed', 3), scalar('u16')),
        ('dyn_u8', 'dyn', scalar('u8')),
        ('dyn_u64', 'dyn', scalar('u64')),
        ('lim_u16', ('limited', 2), scalar('u16')),
        ('F', 'plain', F),
        ('D', 'plain', D),
        ('E', 'plain', D8),
        ('U', 'plain', U),
        ('V', 'plain', U4),
        ('bytes_dyn', 'dyn', BYTE),
        ('bytes_fix', ('fixed', 3), BYTE),
        ('dyn_D', 'dyn', D),
        ('opt_enum', 'opt', En),
    ]


def last_only(nm):
    D = mk_struct(nm('D'), [('x', 'dyn', scalar('u8'))])
    Unl = mk_struct(nm('W'), [('h', 'plain', scalar('u8')), ('t', 'greedy', scalar('u32'))])
    return [
        ('greedy_u16', 'greedy', scalar('u16')),
        ('greedy_bytes', 'greedy', BYTE),
        ('greedy_D', 'greedy', D),
        ('unl', 'plain', Unl),
    ]


def exhaustive_small(k, with_last=True):
    """every member sequence of length <= k over the basis (plus, as last member, the
    greedy/unlimited shapes)"""
    nm = Namer()
    bs = basis(nm)
    ls = last_only(nm)
    n = 0
    for length in range(1, k + 1):
        for combo in itertools.product(range(len(bs)), repeat=length):
            n += 1
            members = [('m%d' % i, bs[c][1], bs[c][2]) for i, c in enumerate(combo)]
            label = '+'.join(bs[c][0] for c in combo)
            yield label, mk_struct('S%d' % n, members)
            if with_last and length < k:
                for ll, lspec, lt in ls:
                    n += 1
                    yield label + '+' + ll, mk_struct('S%d' % n, members + [('z', lspec, lt)])
    if with_last:
        for ll, lspec, lt in ls:
            n += 1
            yield ll, mk_struct('S%d' % n, [('z', lspec, lt)])


def special_shapes():
    """hand-picked shapes the two generators reach rarely: explicit counters of every integer type (signed ones
    included: prophyc accepts them), a counter shared by two arrays, a counter separated from its array, limited
    arrays of structs, a struct of nothing but an optional, unions of unions"""
    out = []
    for it in INTS:
        out.append(('sizer_%s' % it, mk_struct('Z%s' % it, [('n', 'plain', scalar(it)), ('x', ('ext', 'n'), scalar('u16')),
                                                            ('t', 'plain', scalar('u8'))])))
    out.append(('sizer_shared', mk_struct('Zsh', [('n', 'plain', scalar('u8')), ('a', ('ext', 'n'), scalar('u8')),
                                                  ('b', ('ext', 'n'), scalar('u32'))])))
    out.append(('sizer_far', mk_struct('Zfar', [('n', 'plain', scalar('u16')), ('k', 'plain', scalar('u64')),
                                                ('o', 'opt', scalar('u16')), ('x', ('ext', 'n'), scalar('u32')),
                                                ('y', 'plain', scalar('u8'))])))
    P = mk_struct('Zp', [('a', 'plain', scalar('u16')), ('b', 'plain', scalar('u8'))])
    out.append(('lim_struct', mk_struct('Zls', [('h', 'plain', scalar('u8')), ('x', ('limited', 3), P), ('t', 'plain', scalar('u32'))])))
    out.append(('only_opt', mk_struct('Zoo', [('o', 'opt', scalar('u8'))])))
    out.append(('bytes_lim', mk_struct('Zbl', [('h', 'plain', scalar('u16')), ('name', ('limited', 5), BYTE), ('t', 'plain', scalar('u8'))])))
    out.append(('bytes_all', mk_struct('Zba', [('f', ('fixed', 3), BYTE), ('l', ('limited', 4), BYTE), ('d', 'dyn', BYTE),
                                               ('g', 'greedy', BYTE)])))
    U1 = mk_union('Zu1', [(1, 'a', scalar('u8')), (2, 'b', scalar('u32'))])
    U2 = mk_union('Zu2', [(5, 'u', U1), (9, 'w', scalar('u64'))])
    out.append(('union_of_union', mk_struct('Zuu', [('p', 'plain', scalar('u8')), ('u', 'plain', U2), ('q', 'plain', scalar('u8'))])))
    Pn = mk_struct('Zpn', [('m', 'plain', P), ('f', ('fixed', 2), scalar('u16')), ('w', 'plain', U1)])
    out.append(('dyn_nested_fixed', mk_struct('Zdn', [('x', 'dyn', Pn), ('l', ('limited', 2), Pn)])))
    # arrays of enums of every kind (names as well as numbers are accepted and normalised by every array operation)
    En = mk_enum('Zen', [('Zen_A', 1), ('Zen_B', 7), ('Zen_C', 65536)])
    out.append(('enum_dyn_only', mk_struct('Zed', [('d', 'dyn', En)])))
    out.append(('enum_arrays', mk_struct('Zea', [('f', ('fixed', 2), En), ('l', ('limited', 3), En), ('o', 'opt', En), ('d', 'dyn', En)])))
    # unions whose largest arm is NOT a multiple of the union's alignment: an 8-aligned arm next to a struct arm of
    # 12 / 20 bytes (alignment 4), of 9 bytes (alignment 1) and of 10 bytes (alignment 2); as a plain member with a
    # tail, as an optional, in a dynamic array and in a limited array
    T12 = mk_struct('Zt12', [('a', 'plain', scalar('u32')), ('b', 'plain', scalar('u32')), ('c', 'plain', scalar('u32'))])
    T20 = mk_struct('Zt20', [('a', ('fixed', 5), scalar('u32'))])
    T9 = mk_struct('Zt9', [('a', ('fixed', 9), scalar('u8'))])
    T10 = mk_struct('Zt10', [('a', ('fixed', 5), scalar('u16'))])
    for nm_, arm in (('12', T12), ('20', T20), ('9', T9), ('10', T10)):
        U = mk_union('Zua' + nm_, [(1, 'big', scalar('u64')), (2, 's', arm)])
        out.append(('union_arm_%s' % nm_, mk_struct('Zum' + nm_, [('u', 'plain', U), ('t', 'plain', scalar('u32'))])))
        out.append(('union_arm_%s_arr' % nm_, mk_struct('Zux' + nm_, [('h', 'plain', scalar('u8')), ('o', 'opt', U), ('x', 'dyn', U),
                                                                        ('l', ('limited', 2), U)])))
    U4 = mk_union('Zua4', [(1, 'd', scalar('r64')), (7, 's', T12), (9, 'e', scalar('u8'))])
    out.append(('union_arm_three', mk_struct('Zum3', [('k', 'plain', scalar('u16')), ('u', 'plain', U4), ('t', 'plain', scalar('u8'))])))
    # a struct that ends with an unlimited STRUCT member (no other dynamic member) after a static part that is not a
    # multiple of the struct's alignment; also one level deeper and with an 8-aligned head
    I16 = mk_struct('Zin16', [('x', 'greedy', scalar('u16'))])
    I8 = mk_struct('Zin8', [('k', 'plain', scalar('u8')), ('x', 'greedy', scalar('u8'))])
    I64 = mk_struct('Zin64', [('x', 'greedy', scalar('u64'))])
    O1 = mk_struct('Zou1', [('a', 'plain', scalar('u32')), ('c', 'plain', scalar('u8')), ('b', 'plain', I16)])
    out.append(('unl_struct_tail', O1))
    out.append(('unl_struct_tail8', mk_struct('Zou2', [('a', 'plain', scalar('u64')), ('c', 'plain', scalar('u8')), ('b', 'plain', I8)])))
    out.append(('unl_struct_tail64', mk_struct('Zou3', [('c', 'plain', scalar('u8')), ('o', 'opt', scalar('u16')), ('b', 'plain', I64)])))
    out.append(('unl_struct_tail_deep', mk_struct('Zou4', [('h', 'plain', scalar('u16')), ('c', 'plain', scalar('u8')), ('m', 'plain', O1)])))
    out.append(('unl_struct_tail_dyn', mk_struct('Zou5', [('d', 'dyn', scalar('u8')), ('c', 'plain', scalar('u8')), ('b', 'plain', I16)])))
    return out


def wrappers(label, st, nm):
    """the same struct as a nested member after an odd offset, as an array element and as a
    union arm where the rules allow it"""
    s = stiffness(st)
    name = st[1]
    out = []
    if s <= 1:
        out.append((label + '@nested', mk_struct(name + 'N', [('p', 'plain', scalar('u8')), ('n', 'plain', st),
                                                                ('q', 'plain', scalar('u16'))])))
        out.append((label + '@dynarr', mk_struct(name + 'A', [('p', 'plain', scalar('u8')), ('n', 'dyn', st)])))
    else:
        out.append((label + '@nested', mk_struct(name + 'N', [('p', 'plain', scalar('u8')), ('n', 'plain', st)])))
    if s == 0:
        out.append((label + '@fixarr', mk_struct(name + 'X', [('p', 'plain', scalar('u8')), ('n', ('fixed', 2), st),
                                                               ('q', 'plain', scalar('u8'))])))
        out.append((label + '@opt', mk_struct(name + 'O', [('p', 'plain', scalar('u8')), ('n', 'opt', st),
                                                            ('q', 'plain', scalar('u8'))])))
        out.append((label + '@arm', mk_struct(name + 'H', [
            ('p', 'plain', scalar('u8')),
            ('u', 'plain', mk_union(name + 'U', [(3, 'a', scalar('u16')), (4, 'b', st)]))])))
    return out


# ------------------------------------------------------------------ random-structured stream

class RandomSchemas(object):
    def __init__(self, rng, prefix='R'):
        self.rng = rng
        self.nm = Namer(prefix)

    def enum(self):
        r = self.rng
        n = r.randint(1, 4)
        pool = [0, 1, 2, 3, 5, 255, 256, 65535, 65536, 0x7FFFFFFF, 0x80000000, 0xFFFFFFFF]
        vals = r.sample(pool, n)
        return mk_enum(self.nm('En'), [(self.nm('EV'), v) for v in vals])

    def fixed_type(self, depth):
        r = self.rng
        c = r.random()
        if depth <= 0 or c < 0.45:
            return scalar(r.choice(SCALARS))
        if c < 0.55:
            return self.enum()
        if c < 0.8:
            return self.struct(depth - 1, want=0)
        return self.union(depth - 1)

    def union(self, depth):
        r = self.rng
        n = r.randint(1, 4)
        discs = r.sample([0, 1, 2, 3, 7, 100, 0xFFFFFFFF], n)
        return mk_union(self.nm('U'), [(d, 'a%d' % i, self.fixed_type(depth)) for i, d in enumerate(discs)])

    def struct(self, depth, want=None):
        """want: 0 fixed, 1 dynamic (or fixed), 2 anything"""
        r = self.rng
        if want is None:
            want = r.choice([0, 1, 1, 2, 2])
        n = r.randint(1, 6)
        members = []
        sizers = []
        for i in range(n):
            last = (i == n - 1)
            fname = 'f%d' % i
            c = r.random()
            if want >= 2 and last and c < 0.35:
                if r.random() < 0.6:
                    et = r.choice([scalar(r.choice(SCALARS)), BYTE, self.fixed_type(depth),
                                   self.struct(depth - 1, want=1) if depth > 0 else scalar('u16')])
                    members.append((fname, 'greedy', et))
                elif depth > 0:
                    members.append((fname, 'plain', self.struct(depth - 1, want=2)))
                else:
                    members.append((fname, 'greedy', scalar('u8')))
                continue
            if want >= 1 and c < 0.25:
                et = r.choice([scalar(r.choice(SCALARS)), BYTE, self.fixed_type(depth),
                               self.struct(depth - 1, want=1) if depth > 0 else BYTE])
                if sizers and r.random() < 0.3:
                    members.append((fname, ('ext', r.choice(sizers)), et))
                else:
                    members.append((fname, 'dyn', et))
                continue
            if want >= 1 and depth > 0 and c < 0.33:
                members.append((fname, 'plain', self.struct(depth - 1, want=1)))
                continue
            if c < 0.45:
                members.append((fname, 'opt', self.fixed_type(depth)))
            elif c < 0.55:
                et = r.choice([self.fixed_type(depth), BYTE])
                members.append((fname, ('fixed', r.randint(1, 4)), et))
            elif c < 0.63:
                et = r.choice([self.fixed_type(depth), BYTE])
                members.append((fname, ('limited', r.randint(1, 4)), et))
            elif want >= 1 and c < 0.70:
                it = r.choice(INTS)
                members.append((fname, 'plain', scalar(it)))
                sizers.append(fname)
            else:
                members.append((fname, 'plain', self.fixed_type(depth)))
        return mk_struct(self.nm('S'), members)

    def message(self):
        return self.struct(self.rng.choice([1, 2, 2, 3]))


# ------------------------------------------------------------------ value generation

def boundary_int(rng, n):
    lo, hi = srange(n)
    if n in ('r32', 'r64'):
        # finite floats only, as bit patterns: 0.0, 1.0, -2.5, 42.0, max finite, min subnormal
        if n == 'r32':
            return rng.choice([0, 0x3F800000, 0xC0200000, 0x42280000, 0x7F7FFFFF, 0x00000001, 0x80000000])
        return rng.choice([0, 0x3FF0000000000000, 0xC004000000000000, 0x4045000000000000,
                           0x7FEFFFFFFFFFFFFF, 0x0000000000000001, 0x8000000000000000])
    c = rng.random()
    if c < 0.5:
        return rng.choice([lo, hi, 0, 1, hi - 1, lo + 1, -1 if lo < 0 else 2])
    if c < 0.75:
        return rng.randint(lo, hi)
    return rng.randint(max(lo, -300), min(hi, 300))


def gen_count(rng, limit=None, small=False):
    if limit is not None:
        return rng.choice([0, 1, limit, max(0, limit - 1), rng.randint(0, limit)])
    if small:
        return rng.choice([0, 1, 2, 3])
    return rng.choice([0, 0, 1, 1, 2, 3, 4, 5, 7, 8, 9])


def gen_value(rng, t, depth=0, mode='mixed'):
    """mode: 'min' (zeros/empty/first arm/unset), 'max' (set optionals, last arm, full arrays), 'mixed'"""
    if t[0] == 'scalar':
        if mode == 'min':
            return 0
        return boundary_int(rng, t[1])
    if t[0] == 'byte':
        if mode == 'min':
            return 0
        return rng.choice([0, 1, 39, 34, 92, 65, 127, 128, 255, rng.randint(0, 255)])
    if t[0] == 'enum':
        if mode == 'min':
            return t[2][0][1]
        return rng.choice(t[2])[1]
    if t[0] == 'union':
        i = 0 if mode == 'min' else (len(t[2]) - 1 if mode == 'max' else rng.randrange(len(t[2])))
        return ('union', i, gen_value(rng, t[2][i][2], depth + 1, mode))
    if t[0] == 'struct':
        fields = t[2]
        counts = {}
        for i, (fname, k, ft) in enumerate(fields):
            if k[0] in ('bound', 'limited'):
                s = k[-1]
                lim = k[1] if k[0] == 'limited' else None
                if s in counts:
                    if lim is not None:
                        counts[s] = min(counts[s], lim)
                else:
                    if mode == 'min':
                        counts[s] = 0
                    elif mode == 'max':
                        counts[s] = lim if lim is not None else 3
                    else:
                        counts[s] = gen_count(rng, lim, small=depth > 0)
                    stype = fields[s][2][1]
                    counts[s] = min(counts[s], srange(stype)[1])
        # all limited arrays sharing a sizer must respect the smallest limit
        for i, (fname, k, ft) in enumerate(fields):
            if k[0] == 'limited':
                counts[k[2]] = min(counts[k[2]], k[1])
        vals = []
        for i, (fname, k, ft) in enumerate(fields):
            if i in counts:
                vals.append(counts[i])
            elif k[0] == 'plain':
                vals.append(gen_value(rng, ft, depth + 1, mode))
            elif k[0] == 'opt':
                if mode == 'min' or (mode == 'mixed' and rng.random() < 0.4):
                    vals.append(None)
                else:
                    vals.append(('some', gen_value(rng, ft, depth + 1, mode)))
            elif k[0] == 'fixed':
                vals.append(('list', [gen_value(rng, ft, depth + 1, mode) for _ in range(k[1])]))
            elif k[0] in ('bound', 'limited'):
                vals.append(('list', [gen_value(rng, ft, depth + 1, mode) for _ in range(counts[k[-1]])]))
            elif k[0] == 'greedy':
                n = 0 if mode == 'min' else gen_count(rng, None, small=depth > 0)
                vals.append(('list', [gen_value(rng, ft, depth + 1, mode) for _ in range(n)]))
        return ('struct', vals)
    raise ValueError(t)


def gen_values(rng, t, n):
    out = [gen_value(rng, t, 0, 'min'), gen_value(rng, t, 0, 'max')]
    while len(out) < n:
        out.append(gen_value(rng, t, 0, 'mixed'))
    return out[:n]


# ------------------------------------------------------------------ classification for evidence

def shape_class(t, v):
    """coarse (schema-shape, value-shape) class: multiset of member kinds + which variable
    parts are non-empty; used to count distinct non-trivial cases"""
    kinds = []

    def walk(t, v):
        if t[0] == 'struct':
            for (fname, k, ft), x in zip(t[2], v[1]):
                tag = k[0] + ':' + (ft[1] if ft[0] == 'scalar' else ft[0])
                if k[0] in ('bound', 'limited', 'greedy', 'fixed'):
                    tag += '#%d' % min(len(x[1]), 3)
                    for e in x[1][:2]:
                        walk(ft, e)
                elif k[0] == 'opt':
                    tag += '?' + ('1' if x is not None else '0')
                    if x is not None:
                        walk(ft, x[1])
                else:
                    walk(ft, x)
                kinds.append(tag)
        elif t[0] == 'union':
            kinds.append('arm%d' % v[1])
            walk(t[2][v[1]][2], v[2])

    walk(t, v)
    return tuple(kinds)


def nontrivial(t, v):
    """has a composite, a variable-length part and (very likely) some padding"""
    cls = shape_class(t, v)
    has_var = any(c.split(':')[0] in ('bound', 'limited', 'greedy', 'opt') for c in cls if ':' in c)
    sizes = set()
    for c in cls:
        if ':' in c:
            nm = c.split(':')[1].split('#')[0].split('?')[0]
            sizes.add(SIZE.get(nm, 0))
    return has_var and len(sizes - {0}) >= 2
