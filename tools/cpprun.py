"""Drive the C++ codecs that prophyc generates (full codec `.ppf.hpp/.ppf.cpp`, raw codec
`.pp.hpp/.pp.cpp`) over many schemas, in parallel, reporting every failure as data.

Public API
==========
run_full(jobs, sanitize=False, batch=12, timeout=120, alloc_cap=1 << 26, op_timeout=10, cxx=None)
run_raw (jobs, batch=12, timeout=120, sanitize=False, op_timeout=10, cxx=None)
parse_raw_header(text) -> [(qualified struct name, [member names], [part names])]
headers_full(job_or_text) / headers_raw(job_or_text) -> {"files": {filename: text}} | {"prophyc_error": str}

job = {"id": int, "schema": <schema tuple or its JSON form, see schema.py>, "text": <schema.to_prophy(schema)>,
       "root": <name of the root struct>, "ops": [op, ...]}
Both run_* return {job id: R} where R is exactly one of
  {"prophyc_error": str}   prophyc exited non-zero / timed out / did not write the files (its stderr tail)
  {"compile_error": str}   the generated C++ (plus the driver) did not compile (first error lines, paths scrubbed)
  {"worker_error": str}    the harness itself failed on this job (Python exception text); never raised
  {"ops": [result, ...]}   one result per op, same order as job["ops"]
Every job is handled in its own directory, with its own prophyc run (only `--cpp_full_out` for run_full,
only `--cpp_out` for run_raw, so that one generator rejecting a schema does not hide the other), its own
translation unit and its own executable; jobs are scheduled individually on common.NPROC threads
(`batch` only groups job directories: jobs i*batch..(i+1)*batch-1 live under one sub-directory).
`timeout` (seconds) bounds every external process (prophyc, one driver run; the compiler gets max(timeout, 300));
`op_timeout` (seconds) bounds a single op inside the driver (alarm(2)); an op exceeding either is a crashed op,
a prophyc / compiler timeout is a prophyc_error / compile_error.
`sanitize`: False | True (= "address,undefined" for run_full, "address" for run_raw) | a -fsanitize= list.
Sanitized builds: `-fsanitize=... -fno-sanitize-recover=all -fno-omit-frame-pointer -O1 -g`, run with
ASAN_OPTIONS=detect_leaks=0:allocator_may_return_null=1. Unsanitized: `-O1`. Always `-std=c++11 -w`.

Bytes are lowercase hex strings. E is "little" | "big" | "native". Hex "" is the empty message.

Crashes
-------
If the driver dies while executing an op (signal, sanitizer report, non-zero exit, alarm, process timeout) that
op's result holds the keys it had already produced (they are emitted one by one, in the order listed below)
plus "crash": "<cause>: <relevant stderr lines joined by ' | '>", cause being "signal 11 (SIGSEGV)",
"exit 1", "timeout" (SIGALRM or process timeout) ...; pids, addresses and scratch paths are scrubbed so
the text is deterministic. The driver is restarted and the remaining ops are executed.
An op line the driver cannot parse yields {"error": "bad op"}.

Full codec ops (run_full)
-------------------------
["decode", E, hex]
   A fresh `prophy::generated::<root>` object, `decode<E>(p, size)` on a malloc'd buffer of exactly `size`
   bytes (1 byte allocated when size == 0). Keys, in emission order:
     "ok": bool                 value returned by decode<E>
     "alloc_peak": int          largest single request through operator new/new[] during the decode call
     "alloc_total": int         sum of all such requests during the decode call
   (if the decode call throws: {"exception": "bad_alloc"|"length_error"|"std::exception"|"unknown",
    "stage": "decode", "alloc_peak", "alloc_total", "heap_overrun"} and nothing else.)
   only when ok is true:
     "size": int                get_byte_size() of the decoded object
     "print": str               print() text (bytes mapped 1:1 to code points, i.e. latin-1)
     "ptr_written": int         return value of the pointer based encode<E>(void*) into a malloc'd buffer of
                                exactly get_byte_size() bytes that was pre-filled with 0x00
     "ptr_bytes": hex           that buffer afterwards (always `size` bytes long)
     "ptr_bytes_ff": hex        the same again with the buffer pre-filled with 0xFF: positions where the two
                                differ were never written by encode (the codec skips padding, it does not zero it)
     "reenc": hex               vector returned by encode<E>()
     "enc_little","enc_big","enc_native": hex   the three vector encodings of the decoded object
     "exceptions": {step: name} only if some of the steps above threw (e.g. bad_alloc because get_byte_size()
                                is absurd); step is one of "size","print","ptr_bytes","ptr_bytes_ff","reenc",
                                "enc_little","enc_big","enc_native"; the keys of a step that threw are absent
   always last:
     "heap_overrun": int        only unsanitized builds detect this: number of heap blocks (operator new blocks
                                and the driver's exact-size buffers) whose 1024 guard bytes *after* the block
                                were overwritten during the op. Those builds append 1024 guard bytes (0xA5) to
                                every block so that a moderate overflow is recorded instead of corrupting the
                                heap (a larger one still ends as a "crash" such as "malloc(): corrupted ...");
                                likewise an over-read of the decode input reads 0xA5 bytes there (a counter of
                                0xA5A5A5A5 = 2779096485 in alloc_peak is the tell-tale). Sanitized builds
                                allocate exact sizes (ASan reports the overflow => "crash") and always say 0.
   operator new refuses (std::bad_alloc) single requests above `alloc_cap` bytes (default 64 MiB) so that a
   decode that resizes from an untrusted counter cannot exhaust the machine; the request is still counted in
   alloc_peak/alloc_total.
["overfill", E, hex, n] or ["overfill", E, hex, n, deep]
   decode as above (keys "ok", "alloc_peak", "alloc_total"; stops there if ok is false), then every limited
   array / limited bytes member (schema kind ('limited', max, sizer)) of the root struct gets n extra
   default-constructed elements (`v.resize(v.size() + n)`; limited arrays and limited bytes are std::vector in
   the full codec). With deep true the same is done recursively in nested structs, set optionals, array
   elements and union arms (if a resize throws: "exception", "stage": "overfill", then "heap_overrun").
   Then "overfilled": [member names of the root that were extended] and "size",
   "print", "ptr_written", "ptr_bytes", "ptr_bytes_ff", "reenc", "enc_*", "exceptions", "heap_overrun" as above
   for the modified object.

Raw codec ops (run_raw)
-----------------------
["layout"]
   {"structs": {name: {"sizeof": int, "alignof": int, "members": {member: offset}, "parts": [names]}}}
   for every PROPHY_STRUCT in the job's .pp.hpp (found by parsing the header text): structs, unions and the
   nested `partN` blocks of dynamic structs, the latter under their qualified name "X::part2" (also listed in
   X's "parts"). Offsets are __builtin_offsetof. members includes the generated `_paddingN` fields, counters
   (`num_of_x`), for an optional both `has_x` and `x`, for a union `discriminator` and every arm (members of
   the anonymous union), for 1-element placeholder arrays (dynamic / greedy) the offset of the array itself.
   The instance members `_2`, `_3` of the part structs are not reported.
["swap", hex]
   The bytes are copied to p = base + 64 of a malloc'd (16-aligned) buffer of 64 + len + 64 bytes filled with
   0xA5, then `prophy::swap(reinterpret_cast<Root*>(p))`. Keys in emission order:
     "ret": int        returned pointer minus p
     "canary_ok": bool both 64 byte canaries still 0xA5
     "bytes": hex      the len message bytes after the call

Notes for users
---------------
* The generated codec aligns with `align<N>(pos)` on the *absolute* pointer, so results depend on the buffer
  being 8-aligned; all buffers used here are malloc'd (16-aligned).
* Nothing here interprets or repairs results; mismatches and crashes are returned as data.
* Out-of-bounds *reads* are only visible with sanitize=True; run both modes: the unsanitized one yields complete
  results (sizes, bytes, heap_overrun) where the sanitized one stops an op at the first bad access.
* Self-test: `/venv/bin/python cpprun.py [--sanitize] [--big]` (60 schemas; --big: 300).
"""
import json
import os
import re
import shutil
import signal
import subprocess
import sys
from concurrent.futures import ThreadPoolExecutor

sys.path.insert(0, os.path.dirname(os.path.abspath(__file__)))
import common  # noqa: E402
import schema as S  # noqa: E402

INCLUDE = os.path.join(common.REPO, "prophy_cpp", "include")
ENDIANS = ("little", "big", "native")


# ------------------------------------------------------------------------------------------------
# C++ driver sources
# ------------------------------------------------------------------------------------------------

RT_COMMON = r'''
#include <stdio.h>
#include <stdlib.h>
#include <string.h>
#include <stdint.h>
#include <stddef.h>
#include <unistd.h>
#include <sys/resource.h>

namespace cpprun
{

static bool g_first = true;

static void line_begin(long i) { printf("{\"i\":%ld", i); g_first = false; fflush(stdout); }
static void line_end() { printf("}\n"); fflush(stdout); }
static void kv_int(const char* k, long long v) { printf(",\"%s\":%lld", k, v); fflush(stdout); }
static void kv_uint(const char* k, unsigned long long v) { printf(",\"%s\":%llu", k, v); fflush(stdout); }
static void kv_bool(const char* k, bool v) { printf(",\"%s\":%s", k, v ? "true" : "false"); fflush(stdout); }
static void kv_str(const char* k, const char* v) { printf(",\"%s\":\"%s\"", k, v); fflush(stdout); }
static void kv_hex(const char* k, const void* p, size_t n)
{
    static const char* digits = "0123456789abcdef";
    const uint8_t* b = static_cast<const uint8_t*>(p);
    char* s = static_cast<char*>(malloc(2 * n + 1));
    for (size_t i = 0; i < n; ++i) { s[2 * i] = digits[b[i] >> 4]; s[2 * i + 1] = digits[b[i] & 15]; }
    s[2 * n] = 0;
    printf(",\"%s\":\"%s\"", k, s);
    fflush(stdout);
    free(s);
}

static int hexval(char c)
{
    if (c >= '0' && c <= '9') return c - '0';
    if (c >= 'a' && c <= 'f') return c - 'a' + 10;
    if (c >= 'A' && c <= 'F') return c - 'A' + 10;
    return -1;
}

/* parses a hex token ("-" = empty) into a malloc'd buffer; returns false on bad input */
static bool parse_hex(const char* tok, uint8_t** out, size_t* n)
{
    size_t len = strlen(tok);
    if (len == 1 && tok[0] == '-') { *out = static_cast<uint8_t*>(malloc(1)); *n = 0; return true; }
    if (len % 2) return false;
    uint8_t* b = static_cast<uint8_t*>(malloc(len / 2 + 1));
    for (size_t i = 0; i < len / 2; ++i)
    {
        int h = hexval(tok[2 * i]), l = hexval(tok[2 * i + 1]);
        if (h < 0 || l < 0) { free(b); return false; }
        b[i] = uint8_t(h * 16 + l);
    }
    *out = b;
    *n = len / 2;
    return true;
}

static void no_core()
{
    struct rlimit rl;
    rl.rlim_cur = 0;
    rl.rlim_max = 0;
    setrlimit(RLIMIT_CORE, &rl);
}

static unsigned env_uint(const char* name, unsigned dflt)
{
    const char* v = getenv(name);
    return v ? unsigned(strtoul(v, 0, 10)) : dflt;
}

/* splits a line in place into at most max tokens */
static int split(char* line, char** tok, int max)
{
    int n = 0;
    char* p = line;
    while (n < max)
    {
        while (*p == ' ' || *p == '\n' || *p == '\r') ++p;
        if (!*p) break;
        tok[n++] = p;
        while (*p && *p != ' ' && *p != '\n' && *p != '\r') ++p;
        if (*p) *p++ = 0;
    }
    return n;
}

} // namespace cpprun
'''

RT_FULL = r'''
#include <new>
#include <stdexcept>
#include <string>
#include <vector>

namespace cpprun
{

enum { GUARD = 1024, HEADER = 16 };
static size_t g_peak = 0, g_total = 0, g_cap = 0, g_overrun = 0;

static bool guard_ok(const uint8_t* g)
{
    for (size_t i = 0; i < GUARD; ++i) if (g[i] != 0xA5) return false;
    return true;
}

static void* counted_alloc(size_t n)
{
    if (n > g_peak) g_peak = n;
    g_total += n;
    if (g_cap && n > g_cap) throw std::bad_alloc();
#ifdef CPPRUN_SANITIZE
    void* p = malloc(n ? n : 1);
    if (!p) throw std::bad_alloc();
    return p;
#else
    uint8_t* p = static_cast<uint8_t*>(malloc(HEADER + n + GUARD));
    if (!p) throw std::bad_alloc();
    *reinterpret_cast<size_t*>(p) = n;
    memset(p + HEADER + n, 0xA5, GUARD);
    return p + HEADER;
#endif
}

static void counted_free(void* q)
{
    if (!q) return;
#ifdef CPPRUN_SANITIZE
    free(q);
#else
    uint8_t* p = static_cast<uint8_t*>(q) - HEADER;
    size_t n = *reinterpret_cast<size_t*>(p);
    if (!guard_ok(p + HEADER + n)) ++g_overrun;
    free(p);
#endif
}

/* a heap buffer of exactly n bytes (sanitized builds) / n bytes + guard (unsanitized builds) */
struct exact_buf
{
    uint8_t* p;
    size_t n;
    exact_buf(size_t n_, int fill): p(0), n(n_)
    {
        if (g_cap && n > g_cap) throw std::bad_alloc();
#ifdef CPPRUN_SANITIZE
        p = static_cast<uint8_t*>(malloc(n ? n : 1));
        if (!p) throw std::bad_alloc();
        if (n) memset(p, fill, n);
#else
        p = static_cast<uint8_t*>(malloc(n + GUARD));
        if (!p) throw std::bad_alloc();
        memset(p, fill, n);
        memset(p + n, 0xA5, GUARD);
#endif
    }
    ~exact_buf()
    {
#ifndef CPPRUN_SANITIZE
        if (!guard_ok(p + n)) ++g_overrun;
#endif
        free(p);
    }
private:
    exact_buf(const exact_buf&);
    exact_buf& operator=(const exact_buf&);
};

} // namespace cpprun

void* operator new(size_t n) { return cpprun::counted_alloc(n); }
void* operator new[](size_t n) { return cpprun::counted_alloc(n); }
void operator delete(void* p) throw() { cpprun::counted_free(p); }
void operator delete[](void* p) throw() { cpprun::counted_free(p); }

namespace cpprun
{

/* called inside a catch (...) handler: names the exception in flight */
static const char* exc_name()
{
    try { throw; }
    catch (std::bad_alloc&) { return "bad_alloc"; }
    catch (std::length_error&) { return "length_error"; }
    catch (std::exception&) { return "std::exception"; }
    catch (...) { return "unknown"; }
}

static void note_exc(std::string& excs, const char* key)
{
    const char* name = exc_name();
    if (!excs.empty()) excs += ",";
    excs += "\"";
    excs += key;
    excs += "\":\"";
    excs += name;
    excs += "\"";
}

} // namespace cpprun

#define CPPRUN_TRY(key, code) try { code } catch (...) { note_exc(excs, key); }
'''

FULL_BODY = r'''
namespace cpprun
{

typedef prophy::generated::@ROOT@ Root;

@OVERFILL@

enum { E_LITTLE, E_BIG, E_NATIVE };

static bool decode_e(int e, Root& x, const void* p, size_t n)
{
    switch (e)
    {
        case E_LITTLE: return x.decode<prophy::little>(p, n);
        case E_BIG: return x.decode<prophy::big>(p, n);
        default: return x.decode<prophy::native>(p, n);
    }
}

static size_t encode_ptr_e(int e, const Root& x, void* p)
{
    switch (e)
    {
        case E_LITTLE: return x.encode<prophy::little>(p);
        case E_BIG: return x.encode<prophy::big>(p);
        default: return x.encode<prophy::native>(p);
    }
}

static std::vector<uint8_t> encode_vec_e(int e, const Root& x)
{
    switch (e)
    {
        case E_LITTLE: return x.encode<prophy::little>();
        case E_BIG: return x.encode<prophy::big>();
        default: return x.encode<prophy::native>();
    }
}

static void kv_vec(const char* k, const std::vector<uint8_t>& v) { kv_hex(k, v.data(), v.size()); }

static void report(int e, const Root& x)
{
    std::string excs;
    size_t size = 0;
    bool have_size = false;
    CPPRUN_TRY("size", size = x.get_byte_size(); have_size = true; kv_uint("size", size); )
    CPPRUN_TRY("print", std::string s = x.print(); kv_hex("print_hex", s.data(), s.size()); )
    if (have_size)
    {
        CPPRUN_TRY("ptr_bytes",
            exact_buf b(size, 0x00);
            size_t w = encode_ptr_e(e, x, b.p);
            kv_uint("ptr_written", w);
            kv_hex("ptr_bytes", b.p, size); )
        CPPRUN_TRY("ptr_bytes_ff",
            exact_buf b(size, 0xFF);
            encode_ptr_e(e, x, b.p);
            kv_hex("ptr_bytes_ff", b.p, size); )
    }
    CPPRUN_TRY("reenc", kv_vec("reenc", encode_vec_e(e, x)); )
    CPPRUN_TRY("enc_little", kv_vec("enc_little", encode_vec_e(E_LITTLE, x)); )
    CPPRUN_TRY("enc_big", kv_vec("enc_big", encode_vec_e(E_BIG, x)); )
    CPPRUN_TRY("enc_native", kv_vec("enc_native", encode_vec_e(E_NATIVE, x)); )
    if (!excs.empty())
    {
        printf(",\"exceptions\":{%s}", excs.c_str());
        fflush(stdout);
    }
}

static void op_inner(int e, const uint8_t* in, size_t n, bool fill, size_t extra, bool deep)
{
    Root x;
    exact_buf ib(n, 0);
    if (n) memcpy(ib.p, in, n);
    bool ok = false;
    const char* exc = 0;
    g_peak = 0;
    g_total = 0;
    try { ok = decode_e(e, x, ib.p, n); }
    catch (...) { exc = exc_name(); }
    size_t peak = g_peak, total = g_total;
    if (exc)
    {
        kv_str("exception", exc);
        kv_str("stage", "decode");
        kv_uint("alloc_peak", peak);
        kv_uint("alloc_total", total);
        return;
    }
    kv_bool("ok", ok);
    kv_uint("alloc_peak", peak);
    kv_uint("alloc_total", total);
    if (!ok) return;
    if (fill)
    {
        std::string names;
        try { overfill_root(x, extra, deep, names); }
        catch (...) { kv_str("exception", exc_name()); kv_str("stage", "overfill"); return; }
        printf(",\"overfilled\":[%s]", names.c_str());
        fflush(stdout);
    }
    report(e, x);
}

static void op_fresh(const char* e, size_t n)
{
    g_overrun = 0;
    int ee = !strcmp(e, "little") ? E_LITTLE : !strcmp(e, "big") ? E_BIG : E_NATIVE;
    Root x;
    try { if (n) grow_root(x, n); }
    catch (...) { kv_str("exception", exc_name()); kv_str("stage", "grow"); return; }
    kv_bool("ok", true);
    report(ee, x);
    kv_uint("heap_overrun", g_overrun);
}

static void op(const char* e, const uint8_t* in, size_t n, bool fill, size_t extra, bool deep)
{
    g_overrun = 0;
    if (!strcmp(e, "little")) op_inner(E_LITTLE, in, n, fill, extra, deep);
    else if (!strcmp(e, "big")) op_inner(E_BIG, in, n, fill, extra, deep);
    else if (!strcmp(e, "native")) op_inner(E_NATIVE, in, n, fill, extra, deep);
    else { kv_str("error", "bad op"); return; }
    kv_uint("heap_overrun", g_overrun);
}

} // namespace cpprun

int main()
{
    using namespace cpprun;
    no_core();
    g_cap = size_t(env_uint("CPPRUN_ALLOC_CAP", 1u << 26));
    unsigned op_timeout = env_uint("CPPRUN_OP_TIMEOUT", 10);
    long first = long(env_uint("CPPRUN_FIRST", 0));
    char* line = 0;
    size_t cap = 0;
    long i = first;
    while (getline(&line, &cap, stdin) > 0)
    {
        char* tok[8];
        int nt = split(line, tok, 8);
        if (nt == 0) continue;
        alarm(op_timeout);
        line_begin(i++);
        uint8_t* data = 0;
        size_t n = 0;
        if (nt == 3 && !strcmp(tok[0], "decode") && parse_hex(tok[2], &data, &n))
        {
            op(tok[1], data, n, false, 0, false);
        }
        else if (nt == 5 && !strcmp(tok[0], "overfill") && parse_hex(tok[2], &data, &n))
        {
            op(tok[1], data, n, true, size_t(strtoull(tok[3], 0, 10)), tok[4][0] == '1');
        }
        else if (nt == 3 && !strcmp(tok[0], "fresh"))
        {
            op_fresh(tok[1], size_t(strtoull(tok[2], 0, 10)));
        }
        else
        {
            kv_str("error", "bad op");
        }
        free(data);
        alarm(0);
        line_end();
    }
    fflush(stdout);
    _exit(0);
}
'''

RAW_BODY = r'''
namespace cpprun
{

typedef ::@ROOT@ Root;

static void layout()
{
@LAYOUT@
}

static void do_swap(const uint8_t* in, size_t n)
{
    enum { CANARY = 64 };
    size_t total = CANARY + n + CANARY;
    uint8_t* base = static_cast<uint8_t*>(malloc(total));
    memset(base, 0xA5, total);
    uint8_t* p = base + CANARY;
    if (n) memcpy(p, in, n);
    Root* r = prophy::swap(reinterpret_cast<Root*>(p));
    kv_int("ret", (long long)(reinterpret_cast<uint8_t*>(r) - p));
    bool ok = true;
    for (size_t i = 0; i < CANARY; ++i) if (base[i] != 0xA5 || p[n + i] != 0xA5) ok = false;
    kv_bool("canary_ok", ok);
    kv_hex("bytes", p, n);
    free(base);
}

} // namespace cpprun

int main()
{
    using namespace cpprun;
    no_core();
    unsigned op_timeout = env_uint("CPPRUN_OP_TIMEOUT", 10);
    long first = long(env_uint("CPPRUN_FIRST", 0));
    char* line = 0;
    size_t cap = 0;
    long i = first;
    while (getline(&line, &cap, stdin) > 0)
    {
        char* tok[4];
        int nt = split(line, tok, 4);
        if (nt == 0) continue;
        alarm(op_timeout);
        line_begin(i++);
        uint8_t* data = 0;
        size_t n = 0;
        if (nt == 1 && !strcmp(tok[0], "layout"))
        {
            layout();
        }
        else if (nt == 2 && !strcmp(tok[0], "swap") && parse_hex(tok[1], &data, &n))
        {
            do_swap(data, n);
        }
        else
        {
            kv_str("error", "bad op");
        }
        free(data);
        alarm(0);
        line_end();
    }
    fflush(stdout);
    _exit(0);
}
'''


# ------------------------------------------------------------------------------------------------
# driver generation
# ------------------------------------------------------------------------------------------------

def _composite(t):
    return t[0] in ("struct", "union")


def _overfill_code(t):
    """C++ functions appending n default-constructed elements to limited members, derived from the
    schema tuple; `overfill_root` is the entry point."""
    ds = [d for d in S.decls(t) if _composite(d)]
    out = []
    for d in ds:
        out.append("static void of_%s(prophy::generated::%s& x, size_t n, bool deep, std::string* names);" % (d[1], d[1]))
    for d in ds:
        body = []
        if d[0] == "struct":
            for fname, k, ft in d[2]:
                comp = _composite(ft)
                if k[0] == "limited":
                    body.append("    x.%s.resize(x.%s.size() + n);" % (fname, fname))
                    body.append("    if (names) { if (!names->empty()) *names += \",\"; *names += \"\\\"%s\\\"\"; }" % fname)
                if not comp:
                    continue
                if k[0] == "plain":
                    body.append("    if (deep) of_%s(x.%s, n, deep, 0);" % (ft[1], fname))
                elif k[0] == "opt":
                    body.append("    if (deep && x.%s) of_%s(*x.%s, n, deep, 0);" % (fname, ft[1], fname))
                elif k[0] in ("fixed", "bound", "limited", "greedy"):
                    body.append("    if (deep) for (size_t i = 0; i < x.%s.size(); ++i) of_%s(x.%s[i], n, deep, 0);"
                                % (fname, ft[1], fname))
        else:
            for disc, aname, at in d[2]:
                if _composite(at):
                    body.append("    if (deep) of_%s(x.%s, n, deep, 0);" % (at[1], aname))
        out.append("static void of_%s(prophy::generated::%s& x, size_t n, bool deep, std::string* names)\n{\n"
                   "    (void)x; (void)n; (void)deep; (void)names;\n%s\n}" % (d[1], d[1], "\n".join(body)))
    out.append("static void overfill_root(Root& x, size_t n, bool deep, std::string& names)\n{\n"
               "    of_%s(x, n, deep, &names);\n}" % t[1])
    return "\n".join(out)


def _grow_code(t):
    """C++ functions that give every vector member (dynamic, limited and greedy arrays, at any depth) n more
    default-constructed elements — a limited one at most up to its limit —; `grow_root` is the entry point. Used by the
    "fresh" op to obtain objects without decoding anything."""
    ds = [d for d in S.decls(t) if _composite(d)]
    out = []
    for d in ds:
        out.append("static void gr_%s(prophy::generated::%s& x, size_t n, int depth);" % (d[1], d[1]))
    for d in ds:
        body = []
        if d[0] == "struct":
            for fname, k, ft in d[2]:
                comp = _composite(ft)
                if ft[0] == "byte" and k[0] != "fixed":
                    if k[0] == "limited":
                        body.append("    x.%s.resize(x.%s.size() + n < size_t(%d) ? x.%s.size() + n : size_t(%d));" % (fname, fname, k[1], fname, k[1]))
                    else:
                        body.append("    x.%s.resize(x.%s.size() + n);" % (fname, fname))
                    continue
                if ft[0] == "byte":
                    continue
                if k[0] in ("bound", "greedy"):
                    body.append("    x.%s.resize(x.%s.size() + n);" % (fname, fname))
                elif k[0] == "limited":
                    body.append("    x.%s.resize(x.%s.size() + n < size_t(%d) ? x.%s.size() + n : size_t(%d));" % (fname, fname, k[1], fname, k[1]))
                if not comp:
                    continue
                if k[0] == "plain":
                    body.append("    if (depth > 0) gr_%s(x.%s, n, depth - 1);" % (ft[1], fname))
                elif k[0] in ("fixed", "bound", "limited", "greedy"):
                    body.append("    if (depth > 0) for (size_t i = 0; i < x.%s.size(); ++i) gr_%s(x.%s[i], n, depth - 1);"
                                % (fname, ft[1], fname))
        out.append("static void gr_%s(prophy::generated::%s& x, size_t n, int depth)\n{\n"
                   "    (void)x; (void)n; (void)depth;\n%s\n}" % (d[1], d[1], "\n".join(body)))
    out.append("static void grow_root(Root& x, size_t n)\n{\n    gr_%s(x, n, 3);\n}" % t[1])
    return "\n".join(out)


def _full_driver(job, base):
    t = S.from_json(job["schema"])
    body = FULL_BODY.replace("@ROOT@", job["root"]).replace("@OVERFILL@", _overfill_code(t) + "\n" + _grow_code(t))
    return (RT_COMMON + RT_FULL + '#include "%s.ppf.hpp"\n#include "%s.ppf.cpp"\n' % (base, base) + body)


_RE_STRUCT = re.compile(r"^\s*PROPHY_STRUCT\(\d+\)\s+(\w+)\s*$")
_RE_MEMBER = re.compile(r"^\s*(?:[\w:]+\s+)+(\w+)\s*(?:\[[^\]]*\])?\s*;")
_RE_CLOSE = re.compile(r"^\s*\}\s*(\w+)?\s*;")


def parse_raw_header(text):
    """enumerate PROPHY_STRUCT definitions of a generated .pp.hpp:
    [(qualified name, [data member names incl. paddings, excl. part instances], [qualified part names])]"""
    structs = []          # finished, in order of opening
    stack = []            # entries: ["struct", record] | ["enum"] | ["union"]
    for raw in text.split("\n"):
        line = raw.split("///")[0].rstrip()
        if not line.strip():
            continue
        m = _RE_STRUCT.match(line)
        if m:
            parents = [e[1]["name"] for e in stack if e[0] == "struct"]
            qual = "::".join(parents[-1:] + [m.group(1)]) if parents else m.group(1)
            rec = {"name": qual, "members": [], "parts": []}
            structs.append(rec)
            stack.append(["struct", rec])
            continue
        s = line.strip()
        if s == "{":
            continue
        if re.match(r"^enum\b", s):
            if "}" in s:        # one-line constant: enum { K = 1 };
                continue
            stack.append(["enum"])
            continue
        if s == "union":
            stack.append(["union"])
            continue
        m = _RE_CLOSE.match(line)
        if m and stack:
            kind = stack.pop()
            inst = m.group(1)
            owner = next((e[1] for e in reversed(stack) if e[0] == "struct"), None)
            if kind[0] == "enum" and inst and owner is not None:
                owner["members"].append(inst)          # `} discriminator;`
            elif kind[0] == "struct" and inst and owner is not None:
                owner["parts"].append(kind[1]["name"])  # `} _2;`
            continue
        if stack and stack[-1][0] == "enum":
            continue
        if s.startswith("typedef") or s.startswith("#") or s.startswith("namespace") or s.startswith("template"):
            continue
        m = _RE_MEMBER.match(line)
        if m and stack:
            owner = next((e[1] for e in reversed(stack) if e[0] == "struct"), None)
            if owner is not None:
                owner["members"].append(m.group(1))
    return [(r["name"], r["members"], r["parts"]) for r in structs]


def _raw_driver(job, base, header_text):
    lines = ['    printf(",\\"structs\\":{");']
    first = True
    for name, members, parts in parse_raw_header(header_text):
        lines.append('    printf("%s\\"%s\\":{\\"sizeof\\":%%lu,\\"alignof\\":%%lu,\\"members\\":{", '
                     '(unsigned long)sizeof(::%s), (unsigned long)alignof(::%s));'
                     % ("" if first else ",", name, name, name))
        first = False
        for j, mname in enumerate(members):
            lines.append('    printf("%s\\"%s\\":%%lu", (unsigned long)__builtin_offsetof(::%s, %s));'
                         % ("," if j else "", mname, name, mname))
        lines.append('    printf("},\\"parts\\":[%s]}");' % ",".join('\\"%s\\"' % p for p in parts))
    lines.append('    printf("}");')
    lines.append('    fflush(stdout);')
    body = RAW_BODY.replace("@ROOT@", job["root"]).replace("@LAYOUT@", "\n".join(lines))
    return RT_COMMON + '#include "%s.pp.hpp"\n' % base + body


# ------------------------------------------------------------------------------------------------
# process plumbing
# ------------------------------------------------------------------------------------------------

def _scrub(text, *dirs):
    for d in dirs:
        if d:
            text = text.replace(d + os.sep, "").replace(d, "")
    text = re.sub(r"==\d+==\s*", "", text)
    text = re.sub(r"0x[0-9a-fA-F]+", "0x?", text)
    return text


def _communicate(cmd, input_text, timeout, env=None, cwd=None):
    """returns (returncode | None on timeout, stdout, stderr)"""
    try:
        p = subprocess.Popen(cmd, stdin=subprocess.PIPE, stdout=subprocess.PIPE, stderr=subprocess.PIPE,
                             env=env, cwd=cwd)
    except OSError as e:
        return -1000, "", "cannot start %s: %s" % (cmd[0], e)
    try:
        out, err = p.communicate(input_text.encode("ascii") if input_text is not None else None, timeout=timeout)
        rc = p.returncode
    except subprocess.TimeoutExpired:
        p.kill()
        out, err = p.communicate()
        rc = None
    return rc, out.decode("utf-8", "replace"), err.decode("utf-8", "replace")


_RELEVANT = re.compile(r"ERROR: \w*Sanitizer|SUMMARY:|runtime error:|terminate called|what\(\):|"
                       r"Assertion|double free|corrupt|malloc\(\)|free\(\)|munmap|stack smashing|"
                       r"is located|READ of size|WRITE of size")


def _crash_text(rc, err, dirs):
    if rc is None:
        cause = "timeout"
    elif rc < 0:
        try:
            name = signal.Signals(-rc).name
        except ValueError:
            name = "?"
        cause = "timeout" if -rc == signal.SIGALRM else "signal %d (%s)" % (-rc, name)
    else:
        cause = "exit %d" % rc
    lines = [l.strip() for l in _scrub(err, *dirs).split("\n") if l.strip()]
    rel = [l for l in lines if _RELEVANT.search(l)]
    pick = (rel or lines)[:4]
    return cause + (": " + " | ".join(l[:300] for l in pick) if pick else "")


def _op_line(op):
    kind = op[0]
    if kind == "decode":
        return "decode %s %s" % (op[1], op[2] or "-")
    if kind == "overfill":
        return "overfill %s %s %d %d" % (op[1], op[2] or "-", int(op[3]), 1 if (len(op) > 4 and op[4]) else 0)
    if kind == "fresh":
        return "fresh %s %d" % (op[1], int(op[2]))
    if kind == "layout":
        return "layout"
    if kind == "swap":
        return "swap %s" % (op[1] or "-")
    return "bad"


def _safe_line(op):
    try:
        l = _op_line(op)
    except Exception:  # noqa
        return "bad"
    return l if re.match(r"^[\w\- ]+$", l) else "bad"


def _finish(r):
    """driver line (dict) -> op result"""
    out = {}
    for k, v in r.items():
        if k == "i":
            continue
        if k == "print_hex":
            out["print"] = bytes(bytearray.fromhex(v)).decode("latin-1")
        else:
            out[k] = v
    return out


def _parse_partial(text):
    text = text.rstrip("\n")
    if not text:
        return {}
    for cut in [len(text)] + [m.start() for m in reversed(list(re.finditer(r',"', text)))]:
        try:
            r = json.loads(text[:cut] + "}")
            if isinstance(r, dict):
                return r
        except ValueError:
            continue
    return {}


def _drive(binary, ops, env, timeout, dirs):
    lines = [_safe_line(op) for op in ops]
    results = [None] * len(ops)
    start = 0
    while start < len(ops):
        e = dict(env)
        e["CPPRUN_FIRST"] = str(start)
        rc, out, err = _communicate([binary], "\n".join(lines[start:]) + "\n", timeout, env=e)
        chunks = out.split("\n")
        complete, tail = chunks[:-1], chunks[-1]
        done = 0
        for l in complete:
            if start + done >= len(ops):
                break
            try:
                r = json.loads(l)
            except ValueError:
                tail = l
                break
            if not isinstance(r, dict) or r.get("i") != start + done:
                tail = ""
                break
            results[start + done] = _finish(r)
            done += 1
        if start + done >= len(ops):
            if rc != 0 and results:
                results[-1]["crash"] = _crash_text(rc, err, dirs)
            break
        r = _finish(_parse_partial(tail))
        r["crash"] = _crash_text(rc, err, dirs) if rc != 0 else "driver stopped: " + _scrub(err, *dirs)[:300]
        results[start + done] = r
        start += done + 1
    return results


def _compile_errors(err, dirs):
    err = _scrub(err, *dirs)
    lines = [l for l in err.split("\n") if l.strip()]
    rel = [l for l in lines if re.search(r"\berror\b|undefined reference|ld returned", l)]
    return "\n".join((rel or lines)[:8])[:3000]


def _prophyc(jobdir, base, text, flags, timeout):
    src = os.path.join(jobdir, base + ".prophy")
    with open(src, "w") as f:
        f.write(text)
    cmd = [common.PY, "-m", "prophyc"]
    for fl in flags:
        cmd += [fl, jobdir]
    cmd.append(src)
    rc, out, err = _communicate(cmd, None, timeout, env=common.impl_env(), cwd=jobdir)
    if rc is None:
        return "timeout"
    if rc != 0:
        return ("exit %d: " % rc) + _scrub((err or out).strip(), jobdir)[-600:]
    return None


def _san_list(sanitize, default):
    if not sanitize:
        return None
    if sanitize is True:
        return default
    return str(sanitize)


def _cxxflags(san):
    flags = ["-std=c++11", "-w", "-I", INCLUDE]
    if san:
        flags += ["-fsanitize=" + san, "-fno-sanitize-recover=all", "-fno-omit-frame-pointer", "-O1", "-g",
                  "-DCPPRUN_SANITIZE=1"]
    else:
        flags += ["-O1"]
    return flags


def _run_env(op_timeout, alloc_cap=None):
    env = dict(os.environ)
    env["ASAN_OPTIONS"] = "detect_leaks=0:allocator_may_return_null=1"
    env["UBSAN_OPTIONS"] = "print_stacktrace=0"
    env["CPPRUN_OP_TIMEOUT"] = str(int(op_timeout))
    if alloc_cap is not None:
        env["CPPRUN_ALLOC_CAP"] = str(int(alloc_cap))
    return env


def _one_job(job, jobdir, kind, san, timeout, env, cxx):
    base = "m%s" % job["id"]
    dirs = (jobdir, common.WORKROOT)
    if kind == "full":
        err = _prophyc(jobdir, base, job["text"], ["--cpp_full_out"], timeout)
        need = [base + ".ppf.hpp", base + ".ppf.cpp"]
    else:
        err = _prophyc(jobdir, base, job["text"], ["--cpp_out"], timeout)
        need = [base + ".pp.hpp", base + ".pp.cpp"]
    if err is None:
        missing = [n for n in need if not os.path.exists(os.path.join(jobdir, n))]
        if missing:
            err = "no output file " + ",".join(missing)
    if err is not None:
        return {"prophyc_error": err}
    drv = os.path.join(jobdir, "driver.cpp")
    binary = os.path.join(jobdir, "driver")
    if kind == "full":
        src = _full_driver(job, base)
        units = [drv]
    else:
        with open(os.path.join(jobdir, base + ".pp.hpp")) as f:
            src = _raw_driver(job, base, f.read())
        units = [drv, os.path.join(jobdir, base + ".pp.cpp")]
    with open(drv, "w") as f:
        f.write(src)
    cenv = dict(os.environ)
    cenv["LC_ALL"] = "C"
    rc, out, cerr = _communicate([cxx] + _cxxflags(san) + ["-I", jobdir] + units + ["-o", binary], None,
                                 max(timeout, 300), env=cenv, cwd=jobdir)
    if rc != 0 or not os.path.exists(binary):
        return {"compile_error": "compiler timeout" if rc is None else _compile_errors(cerr, dirs)}
    ops = job.get("ops", [])
    return {"ops": _drive(binary, ops, env, timeout, dirs) if ops else []}


def _run(jobs, kind, san, batch, timeout, env, cxx):
    root = common.scratch("cppf" if kind == "full" else "cppr")
    cxx = cxx or os.environ.get("CPPRUN_CXX", "g++")
    keep = bool(os.environ.get("VERIF_KEEP"))
    batch = max(1, int(batch))

    def do(arg):
        n, job = arg
        jid = job.get("id") if isinstance(job, dict) else None
        jobdir = None
        try:
            jobdir = os.path.join(root, "b%d" % (n // batch), "j%d" % n)
            os.makedirs(jobdir)
            return jid, _one_job(job, jobdir, kind, san, timeout, env, cxx)
        except BaseException as e:  # noqa
            return jid, {"worker_error": "%s: %s" % (type(e).__name__, str(e)[-300:])}
        finally:
            if jobdir and not keep:
                shutil.rmtree(jobdir, ignore_errors=True)

    results = {}
    with ThreadPoolExecutor(max_workers=common.NPROC) as ex:
        for jid, r in ex.map(do, list(enumerate(jobs))):
            results[jid] = r
    if not keep:
        shutil.rmtree(root, ignore_errors=True)
    return results


def run_full(jobs, sanitize=False, batch=12, timeout=120, alloc_cap=1 << 26, op_timeout=10, cxx=None):
    """full codec (.ppf) driver; see the module docstring for ops and the result format"""
    san = _san_list(sanitize, "address,undefined")
    return _run(jobs, "full", san, batch, timeout, _run_env(op_timeout, alloc_cap), cxx)


def run_raw(jobs, batch=12, timeout=120, sanitize=False, op_timeout=10, cxx=None):
    """raw codec (.pp) driver; see the module docstring for ops and the result format"""
    san = _san_list(sanitize, "address")
    return _run(jobs, "raw", san, batch, timeout, _run_env(op_timeout), cxx)


def _headers(job_or_text, flags, exts):
    text = job_or_text["text"] if isinstance(job_or_text, dict) else job_or_text
    d = common.scratch("cpph")
    try:
        err = _prophyc(d, "m", text, flags, 60)
        if err is not None:
            return {"prophyc_error": err}
        files = {}
        for e in exts:
            p = os.path.join(d, "m" + e)
            if os.path.exists(p):
                with open(p) as f:
                    files["m" + e] = f.read()
        return {"files": files}
    finally:
        shutil.rmtree(d, ignore_errors=True)


def headers_full(job_or_text):
    """the generated full codec sources of one schema (debugging aid)"""
    return _headers(job_or_text, ["--cpp_full_out"], [".ppf.hpp", ".ppf.cpp"])


def headers_raw(job_or_text):
    """the generated raw codec sources of one schema (debugging aid)"""
    return _headers(job_or_text, ["--cpp_out"], [".pp.hpp", ".pp.cpp"])


# ------------------------------------------------------------------------------------------------
# self-test
# ------------------------------------------------------------------------------------------------

def _selftest(argv):
    import random
    import time
    import impl
    sanitize = "--sanitize" in argv
    nsmall, nrand = 30, 30
    if "--big" in argv:
        nsmall, nrand = 150, 150
    rng = random.Random(common.seed())
    small = list(S.exhaustive_small(2))
    cases = [("exhaustive", l, t) for l, t in rng.sample(small, nsmall)]
    rs = S.RandomSchemas(rng)
    cases += [("random", "random%d" % i, rs.message()) for i in range(nrand)]
    pyjobs = []
    for i, (_, label, t) in enumerate(cases):
        try:
            text = S.to_prophy(t)
        except ValueError:
            continue
        pyjobs.append({"id": i, "schema": t, "text": text, "root": t[1], "values": S.gen_values(rng, t, 3),
                       "want": ["encode"]})
    t0 = time.time()
    pres = impl.run_py_jobs(pyjobs)
    t_py = time.time() - t0
    fjobs, rjobs, fmeta, rmeta = [], [], {}, {}
    for j in pyjobs:
        r = pres.get(j["id"], {})
        vals = [v for v in r.get("values", []) if "<" in v and not v["<"].startswith("EXC:")
                and not v[">"].startswith("EXC:")]
        fops, fm, rops, rm = [], [], [["layout"]], [None]
        for v in vals:
            fops += [["decode", "little", v["<"]], ["decode", "big", v[">"]]]
            fm += [("canon", v["<"]), ("canon", v[">"])]
            rops.append(["swap", v[">"]])
            rm.append(v["<"])
        if vals:
            fops.append(["overfill", "little", vals[-1]["<"], 2])
            fm.append(("overfill", vals[-1]["<"]))
            fops.append(["decode", "little", vals[-1]["<"][:-2]])
            fm.append(("truncated", vals[-1]["<"][:-2]))
        fmeta[j["id"]], rmeta[j["id"]] = fm, rm
        base = {"id": j["id"], "schema": j["schema"], "text": j["text"], "root": j["root"]}
        fjobs.append(dict(base, ops=fops))
        rjobs.append(dict(base, ops=rops))
    t0 = time.time()
    fres = run_full(fjobs, sanitize=sanitize)
    t_full = time.time() - t0
    t0 = time.time()
    rres = run_raw(rjobs, sanitize=sanitize)
    t_raw = time.time() - t0

    def count(res, key):
        return sum(1 for r in res.values() if key in r)

    print("schemas: %d (the Python codec produced encodings for %d), sanitize=%s" % (
        len(pyjobs), sum(1 for v in fmeta.values() if v), sanitize))
    print("times: python %.1fs, run_full %.1fs (%d jobs, %d ops), run_raw %.1fs (%d jobs, %d ops)" % (
        t_py, t_full, len(fjobs), sum(len(j["ops"]) for j in fjobs), t_raw, len(rjobs),
        sum(len(j["ops"]) for j in rjobs)))
    for name, res in (("full", fres), ("raw", rres)):
        print("%s: compiled %d, prophyc_error %d, compile_error %d, worker_error %d" % (
            name, count(res, "ops"), count(res, "prophyc_error"), count(res, "compile_error"),
            count(res, "worker_error")))
        for key in ("prophyc_error", "compile_error", "worker_error"):
            for jid in sorted(res):
                if key in res[jid]:
                    print("  e.g. job %d (%s) %s: %s" % (jid, cases[jid][1], key,
                                                         res[jid][key].replace("\n", " / ")[:300]))
                    break
    c = dict(dec=0, ok=0, same=0, size_bad=0, ptr_bad=0, over=0, crash=0, exc=0, trunc=0, trunc_ok=0,
             fill=0, fill_same_size=0)
    examples = []

    def ex(*a):
        kinds = [e[0] for e in examples]
        if kinds.count(a[0]) < 2:
            examples.append(a)

    for j in fjobs:
        r = fres[j["id"]]
        if "ops" not in r:
            continue
        label = cases[j["id"]][1]
        for op, (kind, inp), o in zip(j["ops"], fmeta[j["id"]], r["ops"]):
            n = len(inp) // 2
            if "crash" in o:
                c["crash"] += 1
                ex("crash", label, kind, op[1], o["crash"][:260], inp)
            if "exception" in o or "exceptions" in o:
                c["exc"] += 1
                ex("exception", label, kind, op[1], inp, {k: o[k] for k in o if k.startswith("exc") or k.startswith("alloc")})
            if o.get("heap_overrun"):
                c["over"] += 1
            if kind == "canon":
                c["dec"] += 1
                if o.get("ok"):
                    c["ok"] += 1
                    if o.get("reenc") == inp:
                        c["same"] += 1
                    elif "crash" not in o:
                        ex("reenc differs", label, op[1], inp, o.get("reenc"))
                    if "size" in o and o["size"] != n:
                        c["size_bad"] += 1
                        ex("get_byte_size != input length", label, op[1], inp, o["size"], o.get("ptr_written"))
                    if "ptr_written" in o and o["ptr_written"] != n:
                        c["ptr_bad"] += 1
                elif o.get("ok") is False:
                    ex("canonical bytes not decoded", label, op[1], inp)
            elif kind == "truncated":
                c["trunc"] += 1
                if o.get("ok"):
                    c["trunc_ok"] += 1
                    ex("truncated input decoded ok", label, op[1], inp)
            elif kind == "overfill":
                c["fill"] += 1
                if o.get("size") == n:
                    c["fill_same_size"] += 1
    print("full: canonical decodes %(dec)d, ok %(ok)d, re-encoding equal to input %(same)d, "
          "get_byte_size != len %(size_bad)d, ptr_written != len %(ptr_bad)d; truncated inputs %(trunc)d "
          "(decoded ok: %(trunc_ok)d); overfill ops %(fill)d (size unchanged: %(fill_same_size)d); "
          "ops with heap_overrun %(over)d, with exceptions %(exc)d, crashed %(crash)d" % c)
    nsw = nsw_ok = nret = nrcrash = 0
    for j in rjobs:
        r = rres[j["id"]]
        if "ops" not in r:
            continue
        for op, want, o in list(zip(j["ops"], rmeta[j["id"]], r["ops"]))[1:]:
            nsw += 1
            if "crash" in o:
                nrcrash += 1
                ex("swap crash", cases[j["id"]][1], o["crash"][:260], op[1])
                continue
            if o.get("bytes") == want:
                nsw_ok += 1
            else:
                ex("swap(big-endian bytes) != little-endian bytes", cases[j["id"]][1], op[1], o)
            if o.get("ret") == len(op[1]) // 2:
                nret += 1
            else:
                ex("swap end pointer != length", cases[j["id"]][1], len(op[1]) // 2, o.get("ret"))
    print("raw: swaps %d, result equals the little-endian encoding %d, returned end == length %d, crashed %d" % (
        nsw, nsw_ok, nret, nrcrash))
    print("examples:")
    for e in examples:
        print("  ", json.dumps(e)[:700])
    shown = 0
    for n, j in enumerate(fjobs):
        r = fres[j["id"]]
        if "ops" in r and len(r["ops"]) >= 3 and shown < 2 and n % 7 == 3:
            shown += 1
            print("full job %d (%s):\n%s" % (j["id"], cases[j["id"]][1], j["text"]))
            pairs = list(zip(j["ops"], r["ops"]))
            for op, o in pairs[:1] + pairs[-2:]:
                print("   op", json.dumps(op))
                print("   ->", json.dumps(o)[:1500])
            rr = rres[j["id"]]
            if "ops" in rr:
                print("   raw layout ->", json.dumps(rr["ops"][0])[:1200])
                if len(rr["ops"]) > 1:
                    print("   raw", json.dumps(rjobs[n]["ops"][1]), "->", json.dumps(rr["ops"][1])[:400])
    return 0


if __name__ == "__main__":
    sys.exit(_selftest(sys.argv[1:]))
