#!/bin/bash
# run every registered check once (quick tier by default) and summarise
cd "$(dirname "$0")/.."
tier=${1:-quick}
shift
ids=${@:-C01 C02 C03 C04 C05 C06 C07 C08 C09 C10 C11 C12 C13 C14 C15 C16 C17 C18 C19 C20}
for id in $ids; do
  s=$(date +%s)
  ./check $id --tier $tier > work/run-$id.out 2>&1; rc=$?
  e=$(date +%s)
  echo "$id rc=$rc $((e-s))s violations=$(grep -c '^VIOLATION' work/run-$id.out) known=$(grep -c '^KNOWN-FINDING' work/run-$id.out)"
done
