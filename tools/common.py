"""Shared plumbing for the /verif checks: paths, scratch dirs, running the implementation,
evaluating Coq models with vm_compute, evidence files, known findings."""
import ast
import atexit
import json
import os
import re
import shutil
import subprocess
import sys
import tempfile
import time

VERIF = os.path.dirname(os.path.dirname(os.path.abspath(__file__)))
REPO = os.environ.get("PROPHY_REPO", "/repo")
COQ = os.path.join(VERIF, "coq")
PY = "/venv/bin/python"
WORKROOT = os.path.join(VERIF, "work")
NPROC = int(os.environ.get("VERIF_NPROC", "16"))

_scratch = []


def scratch(prefix="run"):
    os.makedirs(WORKROOT, exist_ok=True)
    d = tempfile.mkdtemp(prefix=prefix + "-", dir=WORKROOT)
    _scratch.append(d)
    return d


def _cleanup():
    if os.environ.get("VERIF_KEEP"):
        return
    for d in _scratch:
        shutil.rmtree(d, ignore_errors=True)


atexit.register(_cleanup)


def impl_env():
    env = dict(os.environ)
    env["PYTHONPATH"] = REPO
    env["PYTHONHASHSEED"] = env.get("VERIF_HASHSEED", "0")
    env["PYTHONDONTWRITEBYTECODE"] = "1"
    env["PROPHY_VERIF"] = "1"
    return env


def seed():
    try:
        return int(os.environ.get("VERIF_SEED", "20260923"))
    except ValueError:
        return 20260923


def tier(argv=None):
    t = os.environ.get("VERIF_TIER", "quick")
    argv = sys.argv if argv is None else argv
    if "--tier" in argv:
        t = argv[argv.index("--tier") + 1]
    return "thorough" if t == "thorough" else "quick"


# ---------------------------------------------------------------- Coq evaluation

COQ_FLAGS = ["-Q", "base", "Prophy", "-Q", "spec", "Prophy", "-Q", "model", "Prophy",
             "-Q", "proofs", "Prophy", "-Q", "props", "Prophy", "-Q", "gen", "Prophy"]


def coq_literal_to_py(text):
    """Turn Coq's printed nested list/tuple/number term into a Python object."""
    t = text.replace("%Z", "").replace("%nat", "").replace("%N", "")
    t = t.replace(";", ",")
    t = re.sub(r"\btrue\b", "True", t)
    t = re.sub(r"\bfalse\b", "False", t)
    return ast.literal_eval(t.strip())


def coq_eval_file(vfile, timeout=600):
    """coqc a file consisting of definitions and `Eval vm_compute in ...` commands;
    returns the list of evaluated results (each parsed to Python)."""
    p = subprocess.run(["coqc"] + COQ_FLAGS + [vfile], cwd=COQ, capture_output=True, text=True,
                       timeout=timeout)
    if p.returncode != 0:
        raise RuntimeError("coqc failed on %s:\n%s\n%s" % (vfile, p.stdout[-3000:], p.stderr[-3000:]))
    out = p.stdout
    results = []
    # each result looks like "     = <term>\n     : <type>"
    for m in re.finditer(r"^\s*= (.*?)^\s*: ", out, re.S | re.M):
        results.append(coq_literal_to_py(" ".join(m.group(1).split())))
    return results


def coq_eval_many(files, timeout=900):
    """Evaluate several case files in parallel; returns {file: results}."""
    from concurrent.futures import ThreadPoolExecutor
    with ThreadPoolExecutor(max_workers=NPROC) as ex:
        res = list(ex.map(lambda f: coq_eval_file(f, timeout), files))
    return dict(zip(files, res))


# ---------------------------------------------------------------- evidence / findings

def load_known_findings():
    p = os.path.join(VERIF, "known_findings.json")
    if not os.path.exists(p):
        return []
    with open(p) as f:
        return json.load(f).get("findings", [])


def write_evidence(pid, tier_, seed_, level, coverage, wall_s, violations, assumptions):
    os.makedirs(os.path.join(VERIF, "evidence"), exist_ok=True)
    ev = {
        "property_id": pid, "tier": tier_, "seed": seed_, "level": level,
        "coverage": coverage, "assumptions": assumptions, "wall_s": round(wall_s, 2),
        "violations": violations,
    }
    with open(os.path.join(VERIF, "evidence", pid + ".json"), "w") as f:
        json.dump(ev, f, indent=1, sort_keys=True)
        f.write("\n")


def write_replay(pid, name, obj):
    d = os.path.join(VERIF, "replays", pid)
    os.makedirs(d, exist_ok=True)
    p = os.path.join(d, name + ".json")
    with open(p, "w") as f:
        json.dump(obj, f, indent=1, sort_keys=True, default=str)
        f.write("\n")
    return p


class Timer(object):
    def __init__(self):
        self.t0 = time.time()

    def s(self):
        return time.time() - self.t0
